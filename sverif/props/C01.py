"""C01 - LGANM population law equals the intervened structural equations (structural part).

Decided: (CASES) the per-target outcome of LGANM.sample over all 8 assignments of {do, noise, shift} to a
target, with the dict-truthiness guards forked both ways: do > noise > shift, shift adds, noise and do
replace, do cuts the *column* of W (incoming edges); (LAYOUT) _parse_interventions writes rows
[target, p0, p1] / [target, p, 0] and LGANM.sample reads column 0 as the integer index, 1 into the means,
2 into the variances - a scalar parameter means variance 0; (DTYPE) the working arrays that receive the
parameters are float (numpy silently truncates on `=` and raises on `+=` into an integer array);
(FORMULA) mean = (I - W^T)^-1 mu and cov = A diag(v) A^T as matrix normal forms on the intervened
parameters, and utils.sampling_matrix is the same A; (RANGE) (low, high) tuples reach
rng.uniform(low, high, size=p) with p the number of variables; (NONE) each intervention block is guarded
by the truthiness of its own argument, so None / {} never reach .items().
Also decided: (HISTORY) the result reads no attribute of the model beyond W / means / variances / p that any method other than the
constructor writes, and sample writes no attribute (no caches keyed by part of the arguments).
Not decided: floating-point error of the inverse; that numpy's uniform respects its bounds.
"""
import itertools

from .common import *
from .. import mnf as MN
from ..mnf import MNF, rA, rI, rD, rinv, add, mul

EXPLANATION = __doc__
LG = "sempler.lganm."
FULL = ("slice", ("const", None), ("const", None), ("const", None))
KINDS = {"do_interventions": "d", "noise_interventions": "z", "shift_interventions": "s"}


EMPTY_DICTS = (("dict", ()), ("ext", "dict", (), ()))


def dictexpr(t):
    """abstract intervention dict: list of kinds in override order (later overrides earlier), or None"""
    if not isinstance(t, tuple):
        return None
    if t[0] == "param" and t[1] in KINDS:
        return [KINDS[t[1]]]
    if t[0] == "default":
        return dictexpr(t[2])
    if t in EMPTY_DICTS:
        return []
    if t[0] == "bool" and t[1] == "or" and len(t[2]) == 2 and t[2][1] in EMPTY_DICTS:
        return dictexpr(t[2][0])
    if t[0] == "ext" and t[1] in ("dict", "copy.copy", "copy.deepcopy") and len(t[2]) == 1 and not t[3]:
        return dictexpr(t[2][0])
    if t[0] == "method" and t[2] == "copy" and not t[3]:
        return dictexpr(t[1])
    if t[0] == "mut" and t[2] == "update" and len(t[3]) == 1:
        a, b = dictexpr(t[1]), dictexpr(t[3][0])
        return None if a is None or b is None else a + b
    if t[0] == "binop" and t[1] == "|":
        a, b = dictexpr(t[2]), dictexpr(t[3])
        return None if a is None or b is None else a + b
    if t[0] == "dict" and t[1] and all(k == ("const", "**") for k, _ in t[1]):
        out = []
        for _, v in t[1]:
            d = dictexpr(v)
            if d is None:
                return None
            out += d
        return out
    if t[0] == "phi":
        a, b = dictexpr(t[2]), dictexpr(t[3])
        if a is not None and a == b:
            return a
        # `if do: D = {**do, **D}`: when `do` is empty the merge contributes nothing, so both branches are the merge
        ck = dictexpr(t[1])
        if a is not None and b is not None and ck is not None and len(ck) == 1:
            if [k for k in a if k != ck[0]] == b:
                return a
            if [k for k in b if k != ck[0]] == a and t[1][0] == "unop":
                return b
    return None


def parsed(t):
    """term is _parse_interventions(<dict expression>) -> abstract dict"""
    if isinstance(t, tuple) and t[0] == "call" and t[1] == LG + "_parse_interventions" and len(t[2]) == 1:
        return dictexpr(t[2][0])
    return None


def parsed_col(t):
    """parse(D)[:, k] (optionally .astype(int)) -> (D, k, is_int); also the key list of D as target column"""
    is_int = False
    if isinstance(t, tuple) and t[0] == "method" and t[2] == "astype" and t[3] and t[3][0] in (("extref", "int"), ("extref", "numpy.int64"), ("extref", "numpy.int_")):
        is_int = True
        t = t[1]
    if isinstance(t, tuple) and t[0] == "sub" and t[2][0] == "tuple" and len(t[2][1]) == 2 and t[2][1][0] == FULL and is_const(t[2][1][1]):
        x = parsed(t[1])
        if x is not None and isinstance(t[2][1][1][1], int):
            return (tuple(x), t[2][1][1][1], is_int)
    # np.array(list(D.keys())) / list(D) : the targets of D themselves
    u = t
    while isinstance(u, tuple) and u[0] == "ext" and u[1] in ("numpy.array", "numpy.asarray", "list", "sorted", "numpy.fromiter") and u[2]:
        u = u[2][0]
    if isinstance(u, tuple) and u[0] == "method" and u[2] == "keys" and not u[3]:
        u = u[1]
    d = dictexpr(u) if u is not t or (isinstance(u, tuple) and u[0] == "param") else None
    if d is not None and u is not t:
        return (tuple(d), 0, True)
    return None


def mask_targets(t):
    """numpy.zeros(n, dtype=bool){[targets] = True} -> targets (the index list a boolean membership mask was built from)"""
    if not (isinstance(t, tuple) and len(t) == 5 and t[0] == "store" and t[4] is None and is_const(t[3], True)):
        return None
    b = t[1]
    if not (isinstance(b, tuple) and b[0] == "ext" and b[1] in ("numpy.zeros", "numpy.zeros_like") and len(b[2]) == 1):
        return None
    kw = dict(b[3])
    if set(kw) != {"dtype"} or kw["dtype"] not in (("extref", "bool"), ("extref", "numpy.bool_")):
        return None
    return t[2]


def strip_destroy(t):
    """remove sort / unique / set wrappers around a target list -> (inner term, whether anything was removed)"""
    destroyed = False
    while isinstance(t, tuple) and t:
        m = mask_targets(t)
        if m is not None:
            # x[mask] visits the True positions in ascending index order: a membership mask is a sorted, de-duplicated target list
            destroyed, t = True, m
        elif t[0] == "ext" and t[1] in api.ORDER_DESTROY and t[2]:
            destroyed, t = True, t[2][0]
        elif t[0] == "method" and t[2] == "astype" and isinstance(t[1], tuple) and t[1][0] == "ext" and t[1][1] in api.ORDER_DESTROY and t[1][2]:
            destroyed, t = True, ("method", t[1][2][0], "astype", t[3], t[4])
        else:
            break
    return t, destroyed


class Cases:
    """abstract evaluation of the final means / variances / W terms for one target under facts"""

    def __init__(self, facts, forks, col_tag):
        self.facts, self.forks, self.col_tag = facts, forks, col_tag
        self.problems = []

    def member(self, D):
        return any(self.facts[k] for k in D)

    def kind(self, D):
        """which intervention's parameters a target gets from the (possibly merged) dict"""
        ks = [k for k in D if self.facts[k]]
        return ks[-1] if ks else None

    def truth(self, cond):
        """truthiness of an intervention argument / merged dict"""
        D = dictexpr(cond)
        if D is None and cond[0] == "cmp" and cond[1] in ("is not", "!=") and is_const(cond[3], None):
            D = dictexpr(cond[2])
        if D is None and cond[0] == "cmp" and cond[1] in (">", "!=") and cond[2][0] == "ext" and cond[2][1] == "len" and is_const(cond[3], 0):
            D = dictexpr(cond[2][2][0])
        if D is None and cond[0] == "bool" and cond[1] == "and":
            ds = [self._dict_of(c) for c in cond[2]]
            if all(d is not None for d in ds) and len({tuple(d) for d in ds}) == 1:
                D = ds[0]
        if D is None:
            raise Inconclusive("intervention block guarded by an unrecognised condition: %s" % fmt(cond)[:80])
        if self.member(D):
            return True
        return any(self.forks[k] for k in D)

    def _dict_of(self, c):
        d = dictexpr(c)
        if d is not None:
            return d
        if c[0] == "cmp" and is_const(c[3]):
            if c[2][0] == "ext" and c[2][1] == "len" and c[2][2]:
                return dictexpr(c[2][2][0])
            return dictexpr(c[2])
        return None

    def ev(self, t, base_tag):
        k = t[0]
        if k == "phi":
            return self.ev(t[2] if self.truth(t[1]) else t[3], base_tag)
        if k == "store":
            _, b, idx, val, aug = t
            below = self.ev(b, base_tag)
            tgt = parsed_col(idx)
            if tgt is None:
                # targets passed through an order-destroying operation while the parameter columns keep dict order
                u, destroyed = strip_destroy(idx)
                t2 = parsed_col(u) if destroyed else None
                if t2 is not None:
                    self.problems.append("the target list is sorted / de-duplicated (%s) while the parameter columns stay in dict order: with several targets the parameters are permuted among them" % fmt(idx)[:60])
                    tgt = t2
            if tgt is None or tgt[1] != 0 or not tgt[2]:
                raise Inconclusive("store index is not the integer target column of a parsed intervention: %s" % fmt(idx)[:80])
            src = parsed_col(val)
            if src is None:
                raise Inconclusive("stored value is not a column of a parsed intervention: %s" % fmt(val)[:80])
            if src[0] != tgt[0]:
                self.problems.append("targets of `%s` receive the parameters of `%s`" % ("+".join(tgt[0]), "+".join(src[0])))
            if not self.member(tgt[0]):
                return below
            kd = self.kind(src[0])
            if kd is None:
                self.problems.append("a target of `%s` is assigned a row of `%s`, which has none for it" % ("+".join(tgt[0]), "+".join(src[0])))
                return below
            tag = kd.upper() + {1: "M", 2: "V"}.get(src[1], "?%d" % src[1])
            if aug == "+":
                return tuple(sorted(below + (tag,)))
            if aug is None:
                return (tag,)
            raise Inconclusive("unsupported update operator %s" % aug)
        self._plain_base(t)
        return (base_tag,)

    @staticmethod
    def _plain_base(t):
        # what is left under the recognised updates must be the untouched vector / matrix: a value that is itself the result of a loop or
        # of further stores is an update these tables do not read (and must not be taken for "no update")
        for x in walk(t):
            if isinstance(x, tuple) and x and x[0] in ("mu", "after", "store", "phi"):
                raise Inconclusive("the vector is also updated in a way the outcome table does not read (%s)" % fmt(x)[:60])

    def ev_W(self, t):
        k = t[0]
        if k == "phi":
            return self.ev_W(t[2] if self.truth(t[1]) else t[3])
        if k == "store":
            _, b, idx, val, aug = t
            below = self.ev_W(b)
            if not (idx[0] == "tuple" and len(idx[1]) == 2):
                raise Inconclusive("W store with an unrecognised index %s" % fmt(idx)[:60])
            r, c = idx[1]

            def pick(t_):          # a target list chosen by earlier branches: follow the branch this valuation takes
                while isinstance(t_, tuple) and t_ and t_[0] == "phi":
                    t_ = t_[2] if self.truth(t_[1]) else t_[3]
                return t_
            r, c = pick(r), pick(c)
            r, c = strip_destroy(r)[0], strip_destroy(c)[0]       # which columns are cut does not depend on their order
            r, c = pick(r), pick(c)
            if not is_const(val, 0) or aug is not None:
                raise Inconclusive("W store of a non-zero value")
            if r == FULL and parsed_col(c) and parsed_col(c)[1] == 0:
                D = parsed_col(c)[0]
                if not self.member(D):
                    return below
                return "cut" if set(D) == {"d"} else "cut:" + "+".join(D)
            if c == FULL and parsed_col(r) and parsed_col(r)[1] == 0:
                D = parsed_col(r)[0]
                return "row-cut" if self.member(D) else below
            raise Inconclusive("W store with an unrecognised index %s" % fmt(idx)[:60])
        self._plain_base(t)
        return "kept"


def implies_not_none(cond, x):
    """the condition being true excludes x is None"""
    if cond == x:
        return True
    if cond[0] == "cmp" and cond[1] in ("is not", "!=") and cond[2] == x and is_const(cond[3], None):
        return True
    if cond[0] == "cmp" and cond[1] in (">", ">=", "!=") and cond[2] == ("ext", "len", (x,), ()):
        return True
    if cond[0] == "ext" and cond[1] in ("len", "bool") and cond[2] == (x,):
        return True
    if cond[0] == "ext" and cond[1] == "isinstance" and cond[2] and cond[2][0] == x:
        return True
    if cond[0] == "bool" and cond[1] == "and":
        return any(implies_not_none(c, x) for c in cond[2])
    if cond[0] == "bool" and cond[1] == "or":
        return all(implies_not_none(c, x) for c in cond[2])
    return False


def oracle(d, s, z):
    if d:
        return (("DM",), ("DV",), "cut")
    if z:
        return (("ZM",), ("ZV",), "kept")
    if s:
        return (("M0", "SM"), ("SV", "V0"), "kept")
    return (("M0",), ("V0",), "kept")


def source_attr(t):
    """the self attribute whose *data* a working-copy term carries"""
    b = base_of(t)
    while isinstance(b, tuple) and b:
        if b[0] == "self":
            return b[1]
        if b[0] == "method" and b[2] in ("copy", "astype"):
            b = b[1]
        elif b[0] == "ext" and b[1] in ("numpy.array", "numpy.copy", "numpy.asarray", "copy.deepcopy") and b[2]:
            b = b[2][0]
        elif b[0] == "binop" and b[1] in ("*", "+", "/") and any(is_const(x) for x in (b[2], b[3])):
            b = b[3] if is_const(b[2]) else b[2]
        else:
            return None
    return None


def roots(term, attr):
    """maximal sub-terms that are the (possibly updated) working copy of self.<attr>"""
    out = []

    def rec(t):
        if not isinstance(t, tuple):
            return
        if t and t[0] in ("phi", "store", "method", "self", "ext", "binop") and source_attr(t) == attr and \
                (t[0] not in ("ext", "binop") or t[0] == "ext" and t[1] in ("numpy.array", "numpy.copy", "numpy.asarray", "copy.deepcopy")):
            if t not in out:
                out.append(t)
            return
        if t and t[0] in ("phi", "store", "method") and source_attr(t) is not None:
            return          # the working copy of another attribute: not part of this one's data
        for c in t:
            rec(c)
    rec(term)
    return out


def reads_of(terms, target):
    """how is `target` read inside the given terms?  -> (number of whole reads, [partial subscript indices])"""
    whole, partial = 0, []

    def full_idx(idx):
        if idx == FULL:
            return True
        if idx[0] == "tuple":
            return all(x == FULL for x in idx[1])
        return False

    def rec(t, parent):
        nonlocal whole
        if t == target:
            if parent is not None and parent[0] == "sub" and parent[1] == target and not full_idx(parent[2]) and parent[2][0] != "cmp":
                partial.append(parent[2])
            elif parent is not None and parent[0] == "store" and parent[1] == target:
                pass          # being written, not read
            else:
                whole += 1
            return
        if isinstance(t, tuple):
            for c in t:
                if isinstance(c, tuple):
                    rec(c, t)
    for t in terms:
        rec(t, None)
    return whole, partial


def base_of(t):
    while isinstance(t, tuple) and t[0] in ("phi", "store"):
        t = t[2] if t[0] == "phi" else t[1]
    return t


def dtype_of(t):
    """'float' | 'as-given'"""
    if not isinstance(t, tuple):
        return "as-given"
    if t[0] == "method" and t[2] == "astype" and t[3]:
        a = t[3][0]
        if a in (("extref", "float"), ("extref", "numpy.float64"), ("extref", "numpy.float_"), ("const", "float"), ("const", "float64"), ("extref", "numpy.double")):
            return "float"
        return "as-given"
    if t[0] == "ext" and t[1] in ("numpy.array", "numpy.asarray", "numpy.zeros", "numpy.ones", "numpy.full", "numpy.empty"):
        d = dict(t[3]).get("dtype")
        if d in (("extref", "float"), ("extref", "numpy.float64"), ("const", "float")):
            return "float"
        if t[1] in ("numpy.zeros", "numpy.ones", "numpy.empty") and d is None:
            return "float"
        return "as-given"
    if t[0] == "ext" and t[1] in ("numpy.eye", "numpy.identity") and dict(t[3]).get("dtype") in (None, ("extref", "float"), ("extref", "numpy.float64")):
        return "float"
    if t[0] == "attr" and t[2] == "T":
        return dtype_of(t[1])
    if t[0] == "unop" and t[1] in ("neg", "pos"):
        return dtype_of(t[2])
    if t[0] in ("mut", "store"):
        return dtype_of(t[1])          # in-place updates keep the dtype of the array they write
    if t[0] == "binop" and t[1] in ("*", "+", "-", "/"):
        if t[1] == "/" or any(is_const(x) and isinstance(x[1], float) for x in (t[2], t[3])):
            return "float"
        return "float" if "float" in (dtype_of(t[2]), dtype_of(t[3])) else "as-given"
    if t[0] == "method" and t[2] == "copy":
        return dtype_of(t[1])
    return "as-given"


def split_phi_row(row):
    """a row literal whose fields are phi terms over the same condition is the phi of two row literals"""
    if row[0] != "list":
        return [row]
    conds = {x[1] for x in row[1] if isinstance(x, tuple) and x[0] == "phi"}
    if len(conds) != 1:
        return [row]
    c = next(iter(conds))
    a = ("list", tuple(x[2] if isinstance(x, tuple) and x[0] == "phi" else x for x in row[1]))
    b = ("list", tuple(x[3] if isinstance(x, tuple) and x[0] == "phi" else x for x in row[1]))
    return split_phi_row(a) + split_phi_row(b)


def run(prog, rep, tier):
    f = need(prog, LG + "LGANM.sample")
    S = Sym(prog, inline=inline_helpers(prog, "sempler.lganm", keep=[LG + "_parse_interventions"], also=[U + "sampling_matrix"]))
    run_function(S, f)
    MODEL = {"W", "means", "variances", "p"}
    model_history(rep, S, f, MODEL, "HISTORY.sample")
    # the law is that of the model *as constructed*: weights, means and variances are the object's own copies (an array the caller keeps and
    # refills for the next model would otherwise change this one)
    from .common import ctor_copies
    ctor_copies(rep, prog, LG + "LGANM.__init__", attrs=("W", "means", "variances"), rule="CTOR.own")
    ctor = [c for c in S.select("call", qname=f.qname) if c.target == "sempler.normal_distribution.NormalDistribution.__init__"]
    if len(ctor) > 1:
        # several constructions: the one built from the working copies is judged (others were reported above when they read hidden state)
        clean = [c for c in ctor if len(c.args) >= 2 and not any(isinstance(x, tuple) and len(x) == 2 and x[0] == "self" and x[1] not in MODEL for a in c.args[:2] for x in walk(a))]
        if len(clean) == 1:
            ctor = clean
    if len(ctor) != 1 or len(ctor[0].args) < 2:
        raise Inconclusive("LGANM.sample: expected exactly one NormalDistribution(mean, covariance) construction", f.node)
    mean_t, cov_t = ctor[0].args[0], ctor[0].args[1]
    # the working copies: looked for in the formula first, then in every fact of the function (largest = latest version)
    everything = []
    for fact in S.facts:
        if fact.qname == f.qname:
            everything += [getattr(fact, "value", None), getattr(fact, "base", None)] + list(getattr(fact, "args", []) or [])
    for li_ in S.loopinfo.values():
        if li_["func"] == f.qname:
            everything += list(li_["init"].values()) + list(li_["next"].values())
    everything = [t for t in everything if t is not None]

    def latest(attr, prefer):
        c = roots(prefer, attr)
        if len(c) == 1:
            return c[0], True
        cands = []
        for t in everything:
            for r in roots(t, attr):
                if r not in cands:
                    cands.append(r)
        if not cands:
            return None, False
        cands.sort(key=lambda t: len(repr(t)))
        big = cands[-1]
        # every other candidate must be an earlier version (a sub-term) of the latest one
        if all(mentions(big, c_) for c_ in cands):
            return big, False
        return None, False
    (Wt, inW), (mt, inM), (vt, inV) = latest("W", mean_t), latest("means", mean_t), latest("variances", cov_t)
    if Wt is None or mt is None or vt is None:
        raise Inconclusive("LGANM.sample: could not identify the working copies of W / means / variances", ctor[0].node)
    formula_ok = inW and inM and inV and roots(cov_t, "W") == [Wt]
    # every entry of W must be able to reach the result: W is an arbitrary DAG matrix, not a triangular one
    whole, partial = reads_of(everything + [mean_t, cov_t], Wt)
    if partial and not whole:
        rep.bad("FORMULA.whole-W", fwhere(f, ctor[0].node, construct="reads of the weight matrix"),
                "the weight matrix is only ever read through partial subscripts (%s): entries outside them - e.g. edges from a higher to a lower index - never reach the result" % ", ".join(sorted({fmt(i_)[:30] for i_ in partial})[:3]))
    else:
        rep.ok("FORMULA.whole-W", fwhere(f, ctor[0].node, construct="reads of the weight matrix"), "the whole (intervened) weight matrix enters the computation")
    # ---- FORMULA
    if not formula_ok:
        rep.unk("FORMULA.mean", fwhere(f, ctor[0].node, construct="population mean"), "the population moments are not a closed-form expression of the working copies (computed by a loop?): equality with (I - W^T)^-1 mu is not decided")
    M = MNF(vectors=[mt, vt], atoms=[Wt])
    A = rinv(add(rI(), M.transpose(rA(Wt)), -1))
    ref_mean = mul(A, rA(mt))
    ref_cov = mul(mul(A, rD(rA(vt))), M.transpose(A))
    for name, term, ref in ((("mean", mean_t, ref_mean), ("covariance", cov_t, ref_cov)) if formula_ok else ()):
        w = fwhere(f, ctor[0].node, construct="population " + name)
        try:
            got = M.nf(term)

            def make_point(rnd):
                from .. import mnf_eval as ME
                p = 4
                v = ME.vec([abs(x) + 1 for x in ME.rand_vec(rnd, p)[1]])
                return ME.Point(p, {Wt: ME.rand_dag(rnd, p), mt: ME.rand_vec(rnd, p), vt: v}, {})
            decide_formula(rep, "FORMULA." + name, w, got, ref, "population " + name, make_point)
        except Inconclusive as e:
            rep.unk("FORMULA." + name, w, "left the matrix fragment: %s" % e.why)
    fs = need(prog, U + "sampling_matrix")
    Ss = Sym(prog)
    ss, _ = run_function(Ss, fs)
    got = MNF().nf(T(ss.ret))
    ref = rinv(add(rI(), MNF().transpose(rA(("param", "W"))), -1))

    def mp(rnd):
        from .. import mnf_eval as ME
        return ME.Point(4, {("param", "W"): ME.rand_dag(rnd, 4)}, {})
    decide_formula(rep, "FORMULA.sampling_matrix", fwhere(fs), got, ref, "utils.sampling_matrix(W)", mp)
    # ---- CASES
    table = {}
    bad = []
    n_eval = 0
    carried = sorted({a_ for li_ in S.loopinfo.values() if li_["func"] == f.qname for v_ in li_["init"].values() for a_ in ("W", "means", "variances") if roots(v_, a_)})
    if carried:
        # the working copies are updated inside a loop (one intervention / one target at a time): their final value is a loop term, and reading the
        # value *before* the loop as the outcome would take "updated in the loop" for "not updated"
        rep.unk("CASES.lganm", fwhere(f), "the working copies of %s are updated inside a loop; the outcome table reads straight-line updates only" % " / ".join(carried))
        bad = None
    for d, s, z in (itertools.product([False, True], repeat=3) if bad is not None else ()):
        outs = set()
        for fd, fs_, fz in itertools.product([False, True], repeat=3):
            facts = {"d": d, "s": s, "z": z}
            forks = {"d": fd, "s": fs_, "z": fz}
            cm = Cases(facts, forks, None)
            try:
                o = (cm.ev(mt, "M0"), cm.ev(vt, "V0"), cm.ev_W(Wt))
            except Inconclusive as e:
                rep.unk("CASES.lganm", fwhere(f), "outcome table left the recognised update idioms: %s" % e.why)
                bad = None
                break
            n_eval += 1
            outs.add(o)
            for pmsg in cm.problems:
                bad.append((d, s, z, pmsg))
        if bad is None:
            break
        exp = oracle(d, s, z)
        table["do=%d shift=%d noise=%d" % (d, s, z)] = [list(map(str, o)) for o in sorted(outs, key=str)]
        if outs != {exp}:
            bad.append((d, s, z, "outcome %s, expected %s" % (sorted(outs, key=str), exp)))
    rep.tables["lganm_outcomes"] = table
    rep.analysed["cases.valuations"] = n_eval
    if bad is None:
        pass
    elif bad:
        d, s, z, msg = bad[0]
        rep.bad("CASES.lganm", fwhere(f), "target with do=%s shift=%s noise=%s: %s" % (d, s, z, msg), detail=[str(b) for b in bad])
    else:
        rep.ok("CASES.lganm", fwhere(f), "8 x 8 valuations: do > noise > shift; shift adds, noise/do replace; do zeroes column `targets` of W")
    # ---- DTYPE
    for name, t in (("means", mt), ("variances", vt)):
        b = base_of(t)
        has_store = any(isinstance(x, tuple) and x[0] == "store" for x in walk(t))
        dt = dtype_of(b)
        w = fwhere(f, construct="working copy of self.%s" % name)
        if has_store and dt != "float":
            rep.bad("DTYPE.lossless", w, "intervention parameters are stored into %s, which keeps the dtype of the model's array: "
                    "integer models truncate 0.5 to 0 (and `+=` raises)" % fmt(b))
        else:
            rep.ok("DTYPE.lossless", w, "parameters are written into a float array (%s)" % fmt(b))
        rep.check("COPY.working", b != ("self", name), w, "works on a copy of self.%s" % name, "writes self.%s itself" % name)
    rep.check("COPY.working", base_of(Wt) != ("self", "W"), fwhere(f, construct="working copy of self.W"), "works on a copy of self.W", "writes self.W itself")
    # the matrix that is inverted is formed in floating point: arithmetic on W *in the dtype the user gave it* wraps around for
    # unsigned weights (-W), overflows for narrow integers and is a logical product for booleans - np.eye(p) - W.T promotes first
    invs = [c for c in S.select("call", qname=f.qname) if c.callkind == "ext" and c.target in ("numpy.linalg.inv", "numpy.linalg.solve", "numpy.linalg.pinv")] + \
        [c for c in S.facts if c.kind == "call" and getattr(c, "callkind", "") == "ext" and c.target in ("numpy.linalg.inv", "numpy.linalg.solve", "numpy.linalg.pinv") and c.qname == U + "sampling_matrix"]
    for c in invs[:1]:
        a0 = c.args[0] if c.args else None
        arith = a0 is not None and any(isinstance(x, tuple) and x and x[0] in ("binop", "unop", "neg", "mut") for x in walk(a0))
        if a0 is not None and arith and dtype_of(a0) != "float":
            rep.bad("DTYPE.inverse-input", fwhere(c.func if c.func is not None else f, c.node), "the matrix handed to %s is computed in the dtype of the model's W (%s): unsigned weights wrap around "
                    "under negation, narrow integers overflow, booleans multiply logically" % (c.target.split(".")[-1], fmt(a0)[:70]))
        elif a0 is not None:
            rep.ok("DTYPE.inverse-input", fwhere(c.func if c.func is not None else f, c.node), "I - W^T is formed in floating point before it is inverted")
    # ---- NONE: every parse is guarded by the truthiness of its own argument
    parses = [c for c in S.select("call", qname=f.qname) if c.target == LG + "_parse_interventions"]
    kinds_seen = set()
    for c in parses:
        x = c.args[0]
        D = dictexpr(x)
        if D is None:
            rep.unk("NONE.guard", fwhere(f, c.node), "parsed argument %s is not a recognised combination of the intervention dicts" % fmt(x)[:80])
            continue
        kinds_seen |= set(D)
        # every raw parameter inside the parsed expression must be protected against None:
        # either the block is guarded by its truthiness, or it appears as `param or {}`
        raw = [p_ for p_ in walk(x) if isinstance(p_, tuple) and p_[0] == "param" and p_[1] in KINDS]
        ok = True
        for p_ in raw:
            guarded = any(pol is True and implies_not_none(cond, p_) for cond, pol in c.path)
            defaulted = any(isinstance(y, tuple) and y[0] == "bool" and y[1] == "or" and len(y[2]) == 2 and y[2][0] == p_ and y[2][1] in EMPTY_DICTS for y in walk(x))
            # built under a branch that already established the parameter is not None: phi(<p truthy> ? {... p ...} : <no p>)
            branch = any(isinstance(y, tuple) and y[0] == "phi" and implies_not_none(y[1], p_) and mentions(y[2], p_) and not mentions(y[3], p_) for y in walk(x))
            ok = ok and (guarded or defaulted or branch)
        rep.check("NONE.guard", ok, fwhere(f, c.node), "%s is parsed only when it is truthy / defaulted to {} (None skips the block)" % fmt(x)[:60],
                  "%s may reach .items() when it is None" % fmt(x)[:60])
    if not kinds_seen:
        # no call of the parser on one of the three arguments was recognised at all (the arguments are collected first, parsed in a loop ...): not read
        rep.unk("NONE.blocks", fwhere(f), "no parse of do_interventions / shift_interventions / noise_interventions was recognised: how the arguments reach the parser is not read")
    else:
        rep.check("NONE.blocks", kinds_seen == set(KINDS.values()), fwhere(f),
                  "do, shift and noise interventions are each parsed", "not all three intervention kinds are parsed: %s" % sorted(kinds_seen))
    # ---- forwarding to the sampler / population switch
    rets = S.select("return", qname=f.qname)
    pop = [r for r in rets if r.value[0] == "new"]
    fin = [r for r in rets if r.value[0] == "method" and r.value[2] == "sample" and r.value[1][0] == "new"]
    rep.check("POPULATION.switch", len(pop) == 1 and len(fin) == 1 and len(rets) == 2, fwhere(f), "population=True returns the distribution object itself",
              "population / finite-sample switch not recognised")
    # ---- LAYOUT (producer)
    fp = need(prog, LG + "_parse_interventions")
    Sp = Sym(prog)
    sp, _ = run_function(Sp, fp)
    ret0 = T(sp.ret)
    import ast as _ast
    extra = list(fp.params)[1:]
    one_arg_calls = all(len(n.args) + len(n.keywords) == 1 for n in _ast.walk(f.node) if isinstance(n, _ast.Call) and
                        (getattr(n.func, "id", None) or getattr(n.func, "attr", None)) == "_parse_interventions")
    # further parameters that have a default and that no caller passes leave the interface as it is
    same_interface = list(fp.params)[:1] == ["interventions_dict"] and all(p_ in fp.defaults for p_ in extra) and (not extra or one_arg_calls)
    if not same_interface or ret0[0] == "tuple":
        # the private parser is a unit with a contract between it and LGANM.sample (one array, rows [target, mean, variance]); with another signature or
        # another kind of result that contract is a different one, which these rules do not know
        rep.unk("LAYOUT.producer", fwhere(fp), "_parse_interventions%s returns %s: not the (interventions_dict) -> array-of-rows interface the layout rules read" % (
            tuple(fp.params), "a tuple" if ret0[0] == "tuple" else fmt(ret0)[:40]))
        return
    apps = [c for c in Sp.select("call", qname=fp.qname) if c.callkind == "method" and c.target == ".append"]
    key, val = ("key", ("param", "interventions_dict")), ("val", ("param", "interventions_dict"))
    rows = []
    for c in apps:
        if c.args:
            rows += split_phi_row(c.args[0])
    r_tuple = ("list", (key, ("sub", val, ("const", 0)), ("sub", val, ("const", 1))))
    r_scalar = ("list", (key, val, ("const", 0)))
    r_scalar_f = ("list", (key, val, ("const", 0.0)))
    ret = T(sp.ret)
    comp = ret[2][0] if ret[0] == "ext" and ret[1] in ("numpy.array", "numpy.asarray") and ret[2] and isinstance(ret[2][0], tuple) and ret[2][0][:2] == ("comp", "list") else None
    if comp is not None and not apps:
        # np.array([row(t, p) for (t, p) in d.items()]): the element expression lists the row layouts (phi over the parameter forms)
        def leaves(t_):
            if isinstance(t_, tuple) and len(t_) == 4 and t_[0] == "phi":
                return leaves(t_[2]) + leaves(t_[3])
            return [t_]
        for leaf in leaves(comp[2]):
            rows += split_phi_row(leaf)
    rows = [r for i_, r in enumerate(rows) if r not in rows[:i_]]
    ok = len(rows) == 2 and r_tuple in rows and (r_scalar in rows or r_scalar_f in rows)
    plain = all(r[0] in ("list", "tuple") and len(r[1]) == 3 and not any(isinstance(x, tuple) and x[:1] == ("*",) for x in r[1]) for r in rows)
    if not ok and (not rows or not plain):
        rep.unk("LAYOUT.producer", fwhere(fp), "the rows are not written as three-element displays [target, ., .]: %s is not read" % [fmt(r)[:60] for r in rows][:2])
    else:
        rep.check("LAYOUT.producer", ok, fwhere(fp), "rows are [target, p0, p1] and [target, p, 0]: a scalar parameter means variance 0",
                  "row layout is %s, expected [target, params[0], params[1]] and [target, params, 0]" % [fmt(r) for r in rows])
    loops = [li for li in Sp.loopinfo.values() if li["func"] == fp.qname]
    items_ = ("method", ("param", "interventions_dict"), "items", (), ())
    ok = (len(loops) == 1 and loops[0]["iter"] == items_) or (comp is not None and not loops and len(comp[3]) == 1 and comp[3][0][1] == items_ and not comp[3][0][2])
    rep.check("LAYOUT.iter", ok, fwhere(fp), "one row per (target, parameters) item of the dict", "rows are not built from interventions_dict.items()")
    rs = [r for r in Sp.select("raise", qname=fp.qname) if r.exctype == "ValueError"]
    rep.check("LAYOUT.reject", len(rs) >= 1, fwhere(fp), "anything else raises ValueError", "malformed parameters are not rejected")
    ok = ret[0] == "ext" and ret[1] in ("numpy.array", "numpy.asarray") and ret[2] and (ret[2][0][0] == "after" or comp is not None)
    core_ = ret
    while core_[0] == "method" and core_[2] in ("reshape", "astype", "copy"):
        core_ = core_[1]
    listish = ret[0] in ("after", "list", "comp", "tuple")                      # the rows themselves, not packed into an array: indexing [:, 0] fails
    if ok:
        rep.ok("LAYOUT.array", fwhere(fp), "rows are returned as one array (columns = fields)")
    elif listish:
        rep.bad("LAYOUT.array", fwhere(fp), "parsed rows are not returned as an array")
    elif core_[0] == "ext" and core_[1] in ("numpy.array", "numpy.asarray") and core_ is not ret:
        rep.unk("LAYOUT.array", fwhere(fp), "the array of rows is reshaped / converted before it is returned (%s): whether the columns stay [target, p0, p1] is not read" % fmt(ret)[:60])
    else:
        rep.unk("LAYOUT.array", fwhere(fp), "what _parse_interventions returns (%s) is not read" % fmt(ret)[:60])
    # ---- RANGE (constructor)
    fc = need(prog, LG + "LGANM.__init__")
    Sc = Sym(prog)
    run_function(Sc, fc)
    pterm = None
    for a in Sc.select("attrstore", qname=fc.qname):
        if a.attr == "p":
            pterm = a.value

    def same_shape_as_W(t):
        # W itself under wrappers that keep the shape of a 2-d matrix (atleast_2d, array / asarray with any dtype, copy, astype)
        while isinstance(t, tuple):
            if t == ("param", "W"):
                return True
            if t[0] == "ext" and t[1] in ("numpy.atleast_2d", "numpy.array", "numpy.asarray", "numpy.asanyarray", "numpy.copy", "numpy.ascontiguousarray") and t[2] \
                    and not (set(dict(t[3])) - {"dtype", "copy", "order"}):
                t = t[2][0]
            elif t[0] == "method" and t[2] in ("copy", "astype"):
                t = t[1]
            else:
                return False
        return False
    okp = pterm is not None and ((pterm[0] == "ext" and pterm[1] == "len" and len(pterm[2]) == 1 and same_shape_as_W(pterm[2][0])) or
                                 (pterm[0] == "sub" and isinstance(pterm[1], tuple) and pterm[1][0] == "attr" and pterm[1][2] == "shape"
                                  and same_shape_as_W(pterm[1][1]) and pterm[2] in (("const", 0), ("const", 1), ("const", -1), ("const", -2))))
    rep.check("RANGE.p", okp, fwhere(fc), "p = number of variables of W", "self.p is %s" % (fmt(pterm) if pterm else None))
    for name in ("means", "variances"):
        us = [c for c in Sc.select("call", qname=fc.qname) if c.callkind == "method" and c.target == ".uniform"
              and any(mentions(a, ("param", name)) for a in c.args + list(c.kwargs.values()))]
        ok = False
        why = "no rng.uniform over %s" % name
        if len(us) == 1:
            c = us[0]
            pn = ("param", name)
            cargs = list(c.args)
            if cargs and cargs[0] in (("star", pn), ("*", pn)):
                # rng.uniform(*bounds, ...) under the `len(bounds) == 2` guard is rng.uniform(bounds[0], bounds[1], ...)
                cargs = [("sub", pn, ("const", 0)), ("sub", pn, ("const", 1))] + cargs[1:]
            slots, extra = api.bind_slots(api.GEN_SLOTS["uniform"], cargs, c.kwargs)
            gen_ok = c.recv[0] == "ext" and c.recv[1] == "numpy.random.default_rng" and c.recv[2] == (("param", "random_state"),)
            ok = slots.get("low") == ("sub", pn, ("const", 0)) and slots.get("high") == ("sub", pn, ("const", 1)) and \
                slots.get("size") == pterm and gen_ok and not extra
            from ..pred import resolve as _resolve, conj as _conj
            held = _resolve(_conj(c.path))          # the conditions that hold at the call, in normal form: any spelling of the test
            guard = ("atom", ("ext", "isinstance", (pn, ("extref", "tuple")), ()), True) in held or npred(("cmp", "==", ("ext", "type", (pn,), ()), ("extref", "tuple")), True) in held or \
                any(pol is True and mentions(cond, ("ext", "isinstance", (pn, ("extref", "tuple")), ())) or
                    (pol is True and mentions(cond, ("cmp", "==", ("ext", "type", (pn,), ()), ("extref", "tuple")))) for cond, pol in c.path)
            ok = ok and guard
            def selects(v):
                # the stored value is the draw itself, or a phi (guard clauses of a helper) one of whose branches is the draw
                return v == c.result or (isinstance(v, tuple) and len(v) == 4 and v[0] == "phi" and (selects(v[2]) or selects(v[3])))
            stored = [a for a in Sc.select("attrstore", qname=fc.qname) if a.attr == name and selects(a.value)]
            ok = ok and len(stored) == 1
            why = "low=%s high=%s size=%s generator=%s" % (fmt(slots.get("low", ())), fmt(slots.get("high", ())), fmt(slots.get("size", ())), fmt(c.recv))
        if not ok and len(us) == 1 and not (all(plain_term(slots.get(k_)) for k_ in ("low", "high")) and (slots.get("size") == pterm or plain_term(slots.get("size")))):
            rep.unk("RANGE.uniform", fwhere(fc, us[0].node, construct="self.%s: %s" % (name, head(us[0].node)[:120])),
                    "how the range of %s reaches rng.uniform is not written over %s[0] / %s[1] themselves (%s): not read" % (name, name, name, why[:120]))
            continue
        rep.check("RANGE.uniform", ok, fwhere(fc, us[0].node if us else None, construct="self.%s: %s" % (name, head(us[0].node)[:120] if us else "-")), "self.%s <- rng.uniform(%s[0], %s[1], size=p) from default_rng(random_state)" % (name, name, name),
                  "range sampling of %s deviates: %s" % (name, why))
    pattern_method(prog, rep, LG + "LGANM.sample", ["W"])
    # the noise means and variances are plain numbers: nothing may be decided by their values, not even by "is it zero"
    # (a variable with noise variance 0 is still random through its parents)
    pattern_method(prog, rep, LG + "LGANM.sample", ["means", "variances"], rule="NODECISION", strict=True)
    from .common import no_foreign_writes
    no_foreign_writes(rep, prog, LG + "LGANM.sample")
    rep.exhaustive = True      # the finite tables (pairs / valuations) are enumerated completely
    rep.require_count("FORMULA", 3)
    rep.require_count("DTYPE", 2)
    rep.require_count("LAYOUT", 4)
    rep.require_count("RANGE", 3)
    rep.assume("equality of the formulas is over the reals; floating-point error of inv() is not decided")


from .. import api  # noqa: E402
