"""C19 - semi-synthetic samples factorise according to the given graph (structural part; the module
cannot even be imported here - no R / rpy2 - which static analysis does not need).

Decided: (SLOTS) the forest fitted for (node i, environment k) on response column i and the *sorted*
parent columns of environment k's data is stored at [i, k], and DRFNet.sample reads the forest at the
same pair, feeds it the *synthetic* parent columns `sample[:, sorted(pa(i, graph))]` of the array being
filled, and writes its output into column i; source nodes (no forest) are bootstrapped from column i of
the same environment; (ORDER) nodes are generated along self._ordering = topological_ordering(graph);
(SHAPE) one zeros((n_k, p)) array per environment, appended once; n = None | int | per-environment list;
(BOOTSTRAP) _bootstrap returns data[rng.choice(len(data), n, replace=True)] - observed values only;
(RNG) one generator per seeded call (never rebuilt from the integer seed in a loop), numpy's global
stream - used by drf.predict(functional='sample') - reseeded with random_state under `is not None`
before any forest draw; (CONTRACT) one guard per documented TypeError / ValueError clause of
BayesianNetwork.__init__ / .sample, and DRFNet delegates to them first.
Also decided: one forest object per (node, environment) slot; in drf.predict('sample') the drawn id, its population, its weights
row and the training row read back agree; the acyclicity core of C03 for the 'graph is not a DAG' clause.
Not decided: that the R forest's weights are meaningful (external).
"""
import ast
from .common import *
from .C13 import rng_rules
from .. import api
from ..pred import resolve, conj, npred
from ..mnf import strip_wrappers

EXPLANATION = __doc__
SE = "sempler.semi."
FULL = ("slice", ("const", None), ("const", None), ("const", None))
GRAPH, DATA_, N = ("param", "graph"), ("param", "data"), ("param", "n")


def ext(name, *args):
    return ("ext", name, tuple(args), ())


def cmp_(op, a, b):
    return ("cmp", op, a, b)


def contract(rep, S, f, clauses):
    raises = S.select("raise", qname=f.qname)
    for label, exc, alts in clauses:
        hit = None
        for r in raises:
            if r.exctype != exc:
                continue
            have = resolve(conj(r.path))
            # the raise must be *for* this clause: the condition that directly guards it is part of the clause. (A later raise has the negation of every
            # earlier guard on its path as well - an inverted `if isinstance(graph, np.ndarray): raise` would otherwise be "found" at the next TypeError.)
            own = resolve(conj([r.path[-1]])) if r.path else frozenset()
            for alt in alts:
                need_ = resolve(conj(alt))
                if need_ <= have and own and own <= need_:
                    hit = r
        if hit is None:
            rep.bad_form("CONTRACT." + label, fwhere(f), "no %s is raised when %s" % (exc, label.replace("-", " ")))
        else:
            rep.ok("CONTRACT." + label, fwhere(f, hit.node), "%s when %s" % (exc, label.replace("-", " ")))


def run(prog, rep, tier):
    # the graph argument is a weight matrix of any sign: which nodes get a forest / are sources may depend on it only through its zero pattern
    # (column sums of signed weights cancel: a node with parents would be bootstrapped as a source)
    pattern_entries(prog, rep, [(SE + "DRFNet.__init__", "graph")], rule="PAT")
    # ---------------------------------------------------------------- contract: BayesianNetwork.__init__
    f = need(prog, SE + "BayesianNetwork.__init__")
    S = Sym(prog)
    run_function(S, f)
    samp = ("elem", DATA_)
    nd = ("extref", "numpy.ndarray")
    clauses = [
        ("graph-not-ndarray", "TypeError", [[(ext("isinstance", GRAPH, nd), False)]]),
        ("graph-not-2d", "ValueError", [[(cmp_("!=", ("attr", GRAPH, "ndim"), ("const", 2)), True)], [(cmp_("!=", ext("len", ("attr", GRAPH, "shape")), ("const", 2)), True)]]),
        ("graph-not-a-dag", "ValueError", [[(("call", U + "is_dag", (GRAPH,), (("A", GRAPH),)), False)]]),
        ("data-not-a-list", "TypeError", [[(ext("isinstance", DATA_, ("extref", "list")), False)]]),
        ("sample-not-ndarray", "TypeError", [[(ext("isinstance", samp, nd), False)]]),
        ("sample-not-2d", "ValueError", [[(cmp_("!=", ("attr", samp, "ndim"), ("const", 2)), True)]]),
        ("sample-width-mismatch", "ValueError", [[(cmp_("!=", ("sub", ("attr", samp, "shape"), ("const", 1)), ("sub", ("attr", GRAPH, "shape"), ("const", 1))), True)],
                                                 [(cmp_("!=", ("sub", ("attr", samp, "shape"), ("const", 1)), ext("len", GRAPH)), True)],
                                                 [(cmp_("!=", ("sub", ("attr", samp, "shape"), ("const", 1)), ("sub", ("attr", GRAPH, "shape"), ("const", 0))), True)]]),
    ]
    contract(rep, S, f, clauses)
    stores = S.select("attrstore", qname=f.qname)
    raises = S.select("raise", qname=f.qname)
    rep.check("CONTRACT.before-stores", bool(stores) and bool(raises) and max(r.order for r in raises) < min(s.order for s in stores), fwhere(f),
              "all argument checks precede the first attribute store", "attributes are stored before the arguments are fully checked")
    st = {a.attr: a.value for a in stores}
    rep.check("ORDER.ctor", st.get("_ordering") == ("call", U + "topological_ordering", (st.get("graph"),), (("A", st.get("graph")),)) and
              st.get("graph") is not None and derives_patternwise(st.get("graph"), "graph"),
              fwhere(f), "self._ordering = topological_ordering(self.graph), graph = 0/1 pattern of the argument", "ordering/graph stored as %s / %s" % (
                  fmt(st.get("_ordering", ("const", None)))[:60], fmt(st.get("graph", ("const", None)))[:60]))
    rep.check("SHAPE.ctor", st.get("p") in (("sub", ("attr", GRAPH, "shape"), ("const", 1)), ext("len", GRAPH), ("sub", ("attr", GRAPH, "shape"), ("const", 0))) and
              st.get("e") == ext("len", st.get("_data")) and st.get("_data") in (ext("copy.deepcopy", DATA_),), fwhere(f),
              "p = number of variables, e = number of environments, data deep-copied", "p / e / _data stored as %s / %s / %s" % tuple(
                  fmt(st.get(k, ("const", None)))[:40] for k in ("p", "e", "_data")))
    # ---------------------------------------------------------------- contract: BayesianNetwork.sample
    f2 = need(prog, SE + "BayesianNetwork.sample")
    S2 = Sym(prog)
    run_function(S2, f2)
    tn = ext("type", N)
    ne = ("elem", N)
    tne = ext("type", ne)
    INT, LIST = ("extref", "int"), ("extref", "list")
    clauses2 = [
        ("n-wrong-type", "TypeError", [[(cmp_("is", N, ("const", None)), False), (cmp_("in", tn, ("list", (INT, LIST))), False)],
                                        [(cmp_("is", N, ("const", None)), False), (ext("isinstance", N, ("tuple", (INT, LIST))), False)]]),
        # (for an int, `n < 1` is `n <= 0`)
        ("n-not-positive", "ValueError", [[(cmp_("==", tn, INT), True), (cmp_("<=", N, ("const", 0)), True)], [(ext("isinstance", N, INT), True), (cmp_("<=", N, ("const", 0)), True)],
                                          [(cmp_("==", tn, INT), True), (cmp_("<", N, ("const", 1)), True)], [(ext("isinstance", N, INT), True), (cmp_("<", N, ("const", 1)), True)]]),
        ("n-list-wrong-length", "ValueError", [[(cmp_("==", tn, LIST), True), (cmp_("!=", ext("len", N), ("self", "e")), True)],
                                               [(ext("isinstance", N, LIST), True), (cmp_("!=", ext("len", N), ("self", "e")), True)]]),
        ("n-list-element-wrong-type", "TypeError", [[(cmp_("!=", tne, INT), True)], [(ext("isinstance", ne, INT), False)]]),
        ("n-list-element-not-positive", "ValueError", [[(cmp_("<=", ne, ("const", 0)), True)], [(cmp_("<", ne, ("const", 1)), True)]]),
    ]
    contract(rep, S2, f2, clauses2)
    # every entry of a list n is validated: the loop over the entries is left only by an exception (a `return` / `break` inside
    # it accepts the rest of the list unseen)
    early = [r for r in S2.select("return", qname=f2.qname) if r.loops] + [x for x in S2.facts if x.qname == f2.qname and x.kind == "break"]
    brk = [n_ for n_ in ast.walk(f2.node) if isinstance(n_, ast.Break)]
    if early or brk:
        rep.bad("CONTRACT.every-entry", fwhere(f2, early[0].node if early else brk[0]), "the validation loop over the entries of n is left after the first accepted entry: "
                "later entries (0, negative, non-int) are never checked")
    else:
        rep.ok("CONTRACT.every-entry", fwhere(f2), "the loop over the entries of n is only left by an exception")
    # ---------------------------------------------------------------- DRFNet.__init__ : writer
    f3 = need(prog, SE + "DRFNet.__init__")
    S3 = Sym(prog)
    run_function(S3, f3)
    sup = [c for c in S3.select("call", qname=f3.qname) if c.target == SE + "BayesianNetwork.__init__"]
    others = [x for x in S3.facts if x.qname == f3.qname and x.kind in ("attrstore", "store") or (x.qname == f3.qname and x.kind == "call" and x.target == ".fit")]
    rep.check("CONTRACT.delegated-init", bool(sup) and sup[0].args[:2] == [GRAPH, DATA_] and not sup[0].path and all(o.order > sup[0].order for o in others),
              fwhere(f3), "super().__init__(graph, data, ...) runs first", "DRFNet.__init__ does not delegate the argument checks first")
    fits = [c for c in S3.select("call", qname=f3.qname) if c.callkind in ("method", "repo") and c.target in (".fit", "drf.code.drf.fit")]
    wst = [s for s in S3.select("store", qname=f3.qname)]
    i3, k3 = ("elem", ext("range", ("self", "p"))), ("elem", ext("range", ("self", "e")))
    pa3 = ("call", U + "pa", (i3, ("self", "graph")), (("A", ("self", "graph")), ("i", i3)))
    okw, why = False, "expected one fit and one store"
    if len(fits) == 1 and len(wst) == 1:
        fit = fits[0]
        Xt, Yt = [strip_df(a) for a in fit.args[:2]]
        dk = ("sub", ("self", "_data"), k3)
        wantY = ("sub", dk, ("tuple", (FULL, i3)))
        wantX = ("sub", dk, ("tuple", (FULL, ext("sorted", pa3))))
        slot = wst[0].idx == ("tuple", (i3, k3)) and wst[0].value == fit.recv
        okw = Xt == wantX and Yt == wantY and slot
        why = "X=%s Y=%s slot=%s" % (fmt(Xt)[:70], fmt(Yt)[:50], fmt(wst[0].idx))
        guarded = any(npred(c, pol) in (("nonempty", pa3),) for c, pol in fit.path)
        rep.check("SLOTS.sources", guarded, fwhere(f3, fit.node), "forests are fitted only for nodes that have parents (sources keep None)",
                  "the no-parents test is not `pa(i, graph) != set()`")
    if len(fits) == 1 and len(wst) == 1:
        # the fit is kept on the wrapper object itself (drf.fit stores its state on self): every (node, environment)
        # slot needs an object of its own, i.e. allocated in the innermost loop that contains the store
        v = wst[0].value
        news = [c for c in S3.select("call", qname=f3.qname) if v[0] == "new" and c.target == v[1] + ".__init__"]
        fresh = v[0] == "new" and len(news) >= 1 and all(set(wst[0].loops) <= set(c.loops) for c in news) and len(wst[0].loops) >= 2
        rep.check("SLOTS.fresh", fresh, fwhere(f3, news[0].node if news else wst[0].node),
                  "a new forest object is built for every (node, environment) slot (inside both loops)",
                  "the object stored at [i, k] is not allocated per (node, environment): slots share one fitted object, later fits overwrite earlier ones")
    rep.check("SLOTS.writer", okw, fwhere(f3, fits[0].node if fits else None),
              "forest[i, k] is fitted on X = data_k[:, sorted(pa(i))], Y = data_k[:, i]", "fit/store deviate: " + why)
    arr = [a for a in S3.select("attrstore", qname=f3.qname) if a.attr == "_random_forests"]
    oka = len(arr) == 1 and arr[0].value[0] == "ext" and arr[0].value[1] == "numpy.empty" and arr[0].value[2] == (("tuple", (("self", "p"), ("self", "e"))),) and \
        dict(arr[0].value[3]).get("dtype") in (("extref", "object"),)
    rep.check("SLOTS.table", oka, fwhere(f3), "forest table = empty((p, e), dtype=object): None where nothing is fitted", "forest table is not an object array of shape (p, e)")
    # ---------------------------------------------------------------- DRFNet.sample : reader
    f4 = need(prog, SE + "DRFNet.sample")
    S4 = Sym(prog)
    s4, _ = run_function(S4, f4)
    sup = [c for c in S4.select("call", qname=f4.qname) if c.target == SE + "BayesianNetwork.sample"]
    first = min([x.order for x in S4.facts if x.qname == f4.qname and x.kind in ("store", "loop") or (x.qname == f4.qname and x.kind == "call" and x.target.startswith("numpy.random"))] or [0])
    other = [c for c in S4.select("call", qname=f4.qname) if getattr(c, "callkind", "") == "repo" and c.target != SE + "BayesianNetwork.sample" and N in list(c.args) + list((c.kwargs or {}).values())
             and not c.path and c.order < first]
    if not sup and other:
        rep.unk("CONTRACT.delegated-sample", fwhere(f4, other[0].node), "n is not handed to BayesianNetwork.sample but to %s first: whether that validates it the same way is not read" % other[0].target.split(".")[-1])
    else:
        rep.check("CONTRACT.delegated-sample", bool(sup) and sup[0].args[:1] == [N] and not sup[0].path and sup[0].order < first, fwhere(f4),
                  "super().sample(n) validates n before anything else", "n is not validated first")
    loops = sorted([(k, v) for k, v in S4.loopinfo.items() if v["func"] == f4.qname], key=lambda kv: kv[0][1])
    if len(loops) == 2 and loops[0][1]["iter"][0] == "ext" and loops[0][1]["iter"][1] == "zip":
        # for size, original, forests in zip(n, self._data, self._random_forests.T): the per-environment pieces walked in step; read as X[k] with k the
        # position in the zip (every zipped sequence has one entry per environment: n is validated, _data and the forest table are built that way)
        S4z = Sym(prog)
        S4z.zip_index = True
        s4z, _ = run_function(S4z, f4)
        S4, s4 = S4z, s4z
        loops = sorted([(k, v) for k, v in S4.loopinfo.items() if v["func"] == f4.qname], key=lambda kv: kv[0][1])
    if len(loops) != 2:
        # the environment loop written as a comprehension (around an extracted per-environment helper): read it as the loop it is
        S4b = Sym(prog)
        S4b.desugar = "all"
        s4b, _ = run_function(S4b, f4)
        loops_b = sorted([(k, v) for k, v in S4b.loopinfo.items() if v["func"] == f4.qname], key=lambda kv: kv[0][1])
        if len(loops_b) == 2:
            S4, s4, loops = S4b, s4b, loops_b
    if len(loops) != 2:
        # several node loops (e.g. sources first, the others afterwards): at least the *order* of generation can be judged - every
        # loop over nodes must run along self._ordering or an order-keeping selection of it; a set difference / sort / unique on the
        # way (np.setdiff1d returns sorted values) generates children before their parents
        ctor_vals = {a.attr: a.value for a in S3.select("attrstore", qname=f3.qname)}
        ctor_vals.update({a.attr: a.value for a in S.select("attrstore", qname=f.qname) if a.attr not in ctor_vals})
        for lid_, lv in loops[1:]:
            it = lv["iter"]
            seen_attrs = set()
            while isinstance(it, tuple) and it[:1] == ("self",) and it[1] in ctor_vals and it[1] not in seen_attrs and it[1] != "_ordering":
                seen_attrs.add(it[1])
                it = ctor_vals[it[1]]
            def has_order(t_):
                return any(y == ("self", "_ordering") or (isinstance(y, tuple) and y[:2] == ("call", U + "topological_ordering")) for y in walk(t_))
            # only re-ordering operations applied to the ordering itself count (not e.g. sorted(pa(i)) inside a filter condition)
            destroyed = [x for x in walk(it) if isinstance(x, tuple) and len(x) == 4 and x[0] == "ext" and x[1] in api.ORDER_DESTROY and any(has_order(a_) for a_ in x[2])]
            if destroyed:
                rep.bad("ORDER.nodes", fwhere(f4, lv["node"]), "the node loop runs over %s: %s re-orders the topological ordering, so a variable can be generated "
                        "before its parents" % (fmt(lv["iter"]), destroyed[0][1]))
        raise Inconclusive("DRFNet.sample: expected an environment loop and a node loop", f4.node)
    (lo, outer), (li_, inner) = loops
    if any(li_ in getattr(fct, "loops", ()) and lo in getattr(fct, "loops", ()) and getattr(fct, "loops", ()).index(li_) < getattr(fct, "loops", ()).index(lo) for fct in S4.facts):
        (lo, outer), (li_, inner) = (li_, inner), (lo, outer)            # the node loop sits in a helper defined above its caller: nesting decides, not line numbers
    k4 = ("elem", outer["iter"])
    i4 = ("elem", inner["iter"])
    rep.check("ORDER.nodes", inner["iter"] == ("self", "_ordering"), fwhere(f4, inner["node"]), "nodes are generated along self._ordering", "node loop runs over %s" % fmt(inner["iter"]))
    per_env = (("self", "_data"), ("attr", ("self", "_random_forests"), "T"))
    oit = outer["iter"]
    zip_ok = oit[0] == "ext" and oit[1] == "zip" and not oit[3] and bool(oit[2]) and all(x_ in per_env or (x_[0] == "phi" and x_[2] == ("self", "Ns")) for x_ in oit[2])
    rep.check("SHAPE.envs", oit == ext("range", ("self", "e")) or zip_ok, fwhere(f4, outer["node"]), "one sample per environment", "environment loop runs over %s" % fmt(outer["iter"]))
    nm = inner["changed"][0] if len(inner["changed"]) == 1 else None
    if nm is None:
        raise Inconclusive("DRFNet.sample: node loop carries %s" % inner["changed"], inner["node"])
    mu = ("mu", li_, nm)
    nterm = ("phi", cmp_("is", N, ("const", None)), ("self", "Ns"), ("phi", cmp_("==", ext("type", N), ("extref", "int")), ("binop", "*", ("list", (N,)), ("self", "e")), N))
    nalt = ("phi", cmp_("is", N, ("const", None)), ("self", "Ns"), ("phi", ext("isinstance", N, ("extref", "int")), ("binop", "*", ("list", (N,)), ("self", "e")), N))
    init = inner["init"][nm]
    oki = init[0] == "ext" and init[1] == "numpy.zeros" and init[2] and init[2][0][0] == "tuple" and init[2][0][1][1] == ("self", "p") and \
        init[2][0][1][0] in (("sub", nterm, k4), ("sub", nalt, k4))
    rep.check("SHAPE.array", oki, fwhere(f4, inner["node"]), "each environment gets zeros((n_k, p)); n_k = Ns[k] | n | n[k]", "per-environment array is %s" % fmt(init)[:120])
    apps = [c for c in S4.select("call", qname=f4.qname) if c.callkind == "method" and c.target == ".append"]
    rep.check("SHAPE.collect", len(apps) == 1 and apps[0].args == [("after", li_, nm)] and apps[0].loops == (lo,) and T(s4.ret)[0] == "after", fwhere(f4),
              "the filled array is appended once per environment and the list returned", "samples are not collected once per environment")
    stores = [s for s in S4.select("store", qname=f4.qname)]
    forest = ("sub", ("self", "_random_forests"), ("tuple", (i4, k4)))
    isnone = cmp_("is", forest, ("const", None))
    pa4 = ("call", U + "pa", (i4, ("self", "graph")), (("A", ("self", "graph")), ("i", i4)))
    boot = [s for s in stores if (isnone, True) in s.path]
    pred = [s for s in stores if (isnone, False) in s.path]
    okb = len(boot) == 1 and boot[0].idx == ("tuple", (FULL, i4)) and boot[0].base == mu and boot[0].value[0] == "call" and boot[0].value[1] == SE + "_bootstrap"
    if okb:
        named = dict(boot[0].value[3])
        fb_ = prog.funcs.get(SE + "_bootstrap")
        pb_ = list(fb_.params) if fb_ is not None else ["data", "n"]          # a private helper: its parameter names are its own business
        okb = len(pb_) >= 2 and named.get(pb_[0]) == ("sub", ("sub", ("self", "_data"), k4), ("tuple", (FULL, i4))) and named.get(pb_[1]) in (("sub", nterm, k4), ("sub", nalt, k4))
    rep.check("SLOTS.bootstrap", okb, fwhere(f4, boot[0].node if boot else None), "source node i of environment k <- _bootstrap(data_k[:, i], n_k) into column i",
              "sources are not resampled from column i of the same environment's data")
    okp, why = False, "no forest branch"
    if len(pred) == 1:
        st = pred[0]
        v = st.value
        pc = [x for x in walk(v) if isinstance(x, tuple) and x[0] == "method" and x[2] == "predict"]
        if len(pc) == 1:
            kw = {k: x for k, x in pc[0][4] if k != "$draw"}
            nd_ = strip_df(kw.get("newdata", pc[0][3][0] if pc[0][3] else ("const", None)))
            okp = st.idx == ("tuple", (FULL, i4)) and st.base == mu and pc[0][1] == forest and kw.get("functional") == ("const", "sample") and \
                is_const(kw.get("n", ("const", None)), 1) and nd_ == ("sub", mu, ("tuple", (FULL, ext("sorted", pa4)))) and \
                v == ("sub", ("attr", pc[0], "sample"), ("tuple", (FULL, ("const", 0), ("const", 0))))
            why = "forest=%s newdata=%s functional=%s" % (fmt(pc[0][1])[:50], fmt(nd_)[:70], fmt(kw.get("functional", ("const", None))))
    rep.check("SLOTS.reader", okp, fwhere(f4, pred[0].node if pred else None),
              "child i of environment k <- forest[i, k].predict(sample, synthetic sample[:, sorted(pa(i))]) into column i", "forest branch deviates: " + why)
    # ---------------------------------------------------------------- _bootstrap
    f5 = need(prog, SE + "_bootstrap")
    S5 = Sym(prog)
    s5, _ = run_function(S5, f5)
    ch = [c for c in S5.select("call", qname=f5.qname) if c.callkind == "method" and c.target == ".choice"]
    okbs = False
    pb5 = list(f5.params) + ["?", "?"]
    D5, N5 = ("param", pb5[0]), ("param", pb5[1])
    rs5 = [p_ for p_ in f5.params if p_ not in pb5[:2]]
    RS5 = ("param", rs5[0]) if len(rs5) == 1 else ("param", "random_state")
    if len(ch) == 1:
        b, extra = api.bind_slots(api.GEN_SLOTS["choice"], ch[0].args, ch[0].kwargs)
        D, N_ = D5, N5
        nn = ("phi", cmp_("is", N_, ("const", None)), ext("len", D), N_)
        okbs = ch[0].recv == ext("numpy.random.default_rng", RS5) and b.get("a") == ext("len", D) and b.get("size") == nn and \
            b.get("replace") in (("const", True), None) and T(s5.ret) == ("sub", D, ch[0].result)
    if not okbs:
        # rng.integers(0, len(data), size=n): uniform positions with replacement - the same bootstrap
        ig = [c for c in S5.select("call", qname=f5.qname) if c.callkind == "method" and c.target == ".integers"]
        if len(ig) == 1 and not ch:
            b, extra = api.bind_slots(api.GEN_SLOTS["integers"], ig[0].args, ig[0].kwargs)
            D, N_ = D5, N5
            nn = ("phi", cmp_("is", N_, ("const", None)), ext("len", D), N_)
            lo_hi = (is_const(b.get("low"), 0) and b.get("high") == ext("len", D)) or (b.get("low") == ext("len", D) and b.get("high") is None)
            okbs = ig[0].recv == ext("numpy.random.default_rng", RS5) and lo_hi and b.get("size") == nn and \
                b.get("endpoint") in (None, ("const", False)) and T(s5.ret) == ("sub", D, ig[0].result)
    rep.check("BOOTSTRAP.rows", okbs, fwhere(f5), "_bootstrap = data[rng.choice(len(data), n or len(data), replace=True)]: observed rows only",
              "_bootstrap does not return rows of `data` indexed by one seeded choice")
    # ---------------------------------------------------------------- drf.predict(functional='sample'): which training response is handed out
    f6 = need(prog, "drf.code.drf.predict")
    S6 = Sym(prog)
    try:
        run_function(S6, f6)
        draws = [c for c in S6.select("call", qname=f6.qname) if c.callkind == "ext" and c.target.startswith("numpy.random.") and c.target != "numpy.random.seed"]
        sts = [x for x in S6.select("store", qname=f6.qname) if isinstance(x.base, tuple) and x.base[0] == "attr" and x.base[2] == "sample"]
        okd, why = False, "expected one numpy.random.choice and one store into ret.sample"
        if len(draws) == 1 and len(sts) == 1 and draws[0].target == "numpy.random.choice":
            d, st = draws[0], sts[0]
            b, extra = api.bind_slots(api.SLOTS["numpy.random.choice"], d.args, d.kwargs)
            ids = ("sub", d.result, ("const", 0))
            v = st.value
            # value = Y.iloc[ids, :]
            Yt = v[1][1] if v[0] == "sub" and v[1][0] == "attr" and v[1][2] == "iloc" else None
            row_ok = Yt is not None and v[2] in (("tuple", (ids, FULL)), ids)
            n_rows = (("sub", ("attr", Yt, "shape"), ("const", 0)), ext("len", Yt)) if Yt is not None else ()
            pop_ok = b.get("a") in n_rows or b.get("a") in tuple(ext("range", x) for x in n_rows)
            i6 = st.idx[1][0] if st.idx[0] == "tuple" and st.idx[1] else None
            p_ = b.get("p")
            p_ok = p_ is not None and p_[0] == "sub" and p_[2] in (("tuple", (i6, FULL)), i6) and i6 is not None and i6[0] == "elem"       # weights[i, :] / weights[i]
            one = is_const(b.get("size", ("const", None)), 1) or b.get("size") is None
            okd = row_ok and pop_ok and p_ok and one
            if not okd and Yt is not None and one and p_ is not None and p_[0] == "sub" and p_[2][0] == "tuple" and len(p_[2][1]) == 2 and p_[2][1][0] == i6:
                # draw restricted to a subset S of the training rows: position -> row must be mapped back through S
                Sub = p_[2][1][1]
                a_ = b.get("a")
                if a_ in (ext("len", Sub), ext("range", ext("len", Sub))) and v[2] in (("tuple", (("sub", Sub, ids), FULL)), ("sub", Sub, ids)):
                    okd = True
                elif a_ == Sub and v[2] in (("tuple", (ids, FULL)), ids):
                    okd = True          # the row labels themselves are drawn
            why = "row read = Y.iloc[drawn id]: %s; population = all training rows of Y: %s (a = %s); p = weights[i, :] of the test point being filled: %s" % (
                row_ok, pop_ok, fmt(b.get("a", ("const", None)))[:50], p_ok)
        if not okd and why.startswith("expected one numpy.random.choice") and len(draws) == 1 and not sts:
            rep.unk("FOREST.sample-rows", fwhere(f6, draws[0].node), "the drawn rows are not stored into ret.sample directly (a helper fills another array?): not read")
            okd = None
        if okd is not None:
          rep.check("FOREST.sample-rows", okd, fwhere(f6, draws[0].node if draws else None),
                    "predict(functional='sample'): the id drawn over *all* training rows with weights[i, :] is the row of Y that is handed out",
                    "the sampled response is not the training row the weights point at: " + why)
    except Inconclusive as e:
        rep.unk("FOREST.sample-rows", fwhere(f6), "drf.predict left the modelled fragment: %s" % e.why)
    # ---------------------------------------------------------------- the `graph is not a DAG -> ValueError` clause rests on is_dag being exact
    from .C03 import acyclicity_core
    acyclicity_core(rep, prog)
    # ---------------------------------------------------------------- RNG
    rng_rules(rep, prog, f4)
    rng_rules(rep, prog, f5)
    rep.require_count("CONTRACT", 14)
    rep.require_count("SLOTS", 5)
    rep.require_count("R1", 2)
    rep.assume("the R package behind rpy2 returns weights over the training responses (external, not analysed)")


def strip_df(t):
    while isinstance(t, tuple) and t[0] == "ext" and t[1] in ("pandas.DataFrame", "numpy.asarray", "numpy.array") and len(t[2]) == 1:
        t = t[2][0]
    return t
