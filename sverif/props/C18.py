"""C18 - add_edges / remove_edges change exactly the requested number of edges (structural part).

Decided: (PATTERN) both functions work on the 0/1 pattern taken first and on copies; (remove_edges) the
guard is exactly len(directed edges) < no_edges, the removed edges are rng.choice(edges, no_edges,
replace=False) - distinct existing edges - each cleared in a copy of the pattern; (add_edges) the guard is
exactly no_edges > p(p-1)/2 - |E| with |E| the edge count of the pattern; candidates are the pairs where
`a == 0 and b == 0` off the diagonal, in both orientations (pointwise table incl. the diagonal), shuffled
by the seeded generator; a candidate graph = previous graph + one candidate entry replaces the result
*only under is_dag(candidate)*; the index advances by one per round and the loop ends only when the count
is reached or every candidate was tried; the result is returned under the final count assertion;
(SEED) default_rng(random_state).
Assumed (a graph argument, not a code fact): trying every non-adjacent ordered pair once reaches any
feasible count up to the complete DAG.
"""
from .common import *
from .. import api, signs
from .. import pw as PW
from ..pw import Eval, M, E
from ..pred import poly, pkey, padd, pconst, pmul, resolve, conj
from ..sym import kwargs_of

EXPLANATION = __doc__
PA, NE = ("param", "A"), ("param", "no_edges")
RNG = ("ext", "numpy.random.default_rng", (("param", "random_state"),), ())
BINS = [("method", ("method", PA, "astype", (("extref", "bool"),), ()), "astype", (("extref", "int"),), ()),
        ("method", ("cmp", "!=", PA, ("const", 0)), "astype", (("extref", "int"),), ())]


def strip_list(t):
    while isinstance(t, tuple) and t[0] == "ext" and t[1] in ("list", "tuple", "numpy.array") and len(t[2]) == 1:
        t = t[2][0]
    return t


FULL_ = ("slice", ("const", None), ("const", None), ("const", None))


def parallel_arrays_form(rep, prog, f):
    """remove_edges written on the two index arrays of the directed edges instead of the list of pairs directed_edges() zips from them:
    fro, to = np.where(only_directed(B)); chosen = rng.choice(len(fro) | arange(len(fro)), no_edges, replace=False); pruned[fro[chosen], to[chosen]] = 0.
    -> True when the form was recognised (and judged)"""
    q = f.qname
    S = Sym(prog)
    summ, _ = run_function(S, f)
    od = [c for c in S.select("call", qname=q) if c.target == U + "only_directed"]
    if len(od) != 1:
        return False
    B = od[0].args[0]
    W = ("ext", "numpy.where", (od[0].result,), ())
    fro, to = ("sub", W, ("const", 0)), ("sub", W, ("const", 1))
    st = S.select("store", qname=q)
    draws = [c for c in S.select("call", qname=q) if c.callkind == "method" and c.target == ".choice"]
    if len(st) != 1 or len(draws) != 1 or st[0].idx[0] != "tuple" or len(st[0].idx[1]) != 2:
        return False
    ch_ = draws[0].result
    if st[0].idx != ("tuple", (("sub", fro, ch_), ("sub", to, ch_))):
        if st[0].idx == ("tuple", (("sub", to, ch_), ("sub", fro, ch_))):
            rep.ok("BIN.remove", fwhere(f, od[0].node), "existing edges = the positions np.where(only_directed(.)) returns")
            rep.bad("RESULT.remove", fwhere(f, st[0].node), "the cleared entries are [to, from] of the drawn edges: the transposed positions, where the pattern of a directed edge is 0 anyway")
            return True
        return False
    rep.check("BIN.remove", B in BINS, fwhere(f, od[0].node), "existing edges = positions (fro[k], to[k]) of np.where(only_directed(0/1 pattern of A))",
              "the existing edges are not taken from the 0/1 pattern of A (only_directed(%s))" % fmt(B)[:60])
    n_edges = [("ext", "len", (fro,), ()), ("ext", "len", (to,), ()), ("attr", fro, "size"), ("attr", to, "size")]
    raises = [r for r in S.select("raise", qname=q) if r.exctype == "ValueError"]
    wants = [frozenset([(">0", pkey(padd(poly(NE), poly(n_), -1)))]) for n_ in n_edges]
    ok = len(raises) == 1 and resolve(conj(raises[0].path)) in wants
    rep.check("GUARD.remove", ok, fwhere(f, raises[0].node if raises else None), "ValueError iff no_edges > number of edges (boundary exact)",
              "guard is %s, expected `len(edges) < no_edges`" % [sorted(pred_fmt(p_) for p_ in resolve(conj(r.path))) for r in raises])
    b, extra = api.bind_slots(api.GEN_SLOTS["choice"], draws[0].args, draws[0].kwargs)
    pops = n_edges + [("ext", "numpy.arange", (n_,), ()) for n_ in n_edges] + [("ext", "range", (n_,), ()) for n_ in n_edges]
    ok = draws[0].recv == RNG and b.get("a") in pops and b.get("size") == NE and b.get("replace") == ("const", False) and not extra and \
        (not raises or draws[0].order > raises[0].order)
    rep.check("DRAW.remove", ok, fwhere(f, draws[0].node), "removed edges = no_edges distinct positions of the edge arrays, drawn by default_rng(random_state).choice(., no_edges, replace=False)",
              "edges to remove are not `no_edges` distinct existing edges from the seeded generator")
    stored = ("store", st[0].base, st[0].idx, st[0].value, None)
    ok = is_const(st[0].value, 0) and st[0].aug is None and st[0].base == ("method", B, "copy", (), ()) and T(summ.ret) == stored and tuple(st[0].path) == tuple(draws[0].path)
    rep.check("RESULT.remove", ok, fwhere(f), "each drawn edge (fro, to) is cleared in a copy of the pattern, which is returned",
              "result is not `copy of the pattern with exactly the drawn entries set to 0`")
    return True


def remove_rules(rep, prog):
    q = U + "remove_edges"
    f = need(prog, q)
    S = Sym(prog, inline=inline_helpers(prog, "sempler.utils"))
    summ, _ = run_function(S, f)
    calls = [c for c in S.select("call", qname=q) if c.target == U + "directed_edges"]
    if not calls and parallel_arrays_form(rep, prog, f):
        return
    if not calls:
        rep.unk("BIN.remove", fwhere(f), "the existing edges are not obtained from directed_edges(.) nor from np.where(only_directed(.)): not read")
        return
    if len(calls) != 1 or calls[0].args[0] not in BINS:
        rep.bad_form("BIN.remove", fwhere(f), "the existing edges are not taken from the 0/1 pattern of A (directed_edges(%s))" % (fmt(calls[0].args[0])[:60] if calls else "-"))
        return
    B = calls[0].args[0]
    edges = calls[0].result
    rep.ok("BIN.remove", fwhere(f, calls[0].node), "existing edges = directed_edges(0/1 pattern of A)")
    raises = [r for r in S.select("raise", qname=q) if r.exctype == "ValueError"]
    want = frozenset([(">0", pkey(padd(poly(NE), poly(("ext", "len", (edges,), ())), -1)))])
    ok = len(raises) == 1 and resolve(conj(raises[0].path)) == want
    rep.check("GUARD.remove", ok, fwhere(f, raises[0].node if raises else None), "ValueError iff no_edges > number of edges (boundary exact)",
              "guard is %s, expected `len(edges) < no_edges`" % [sorted(pred_fmt(p) for p in resolve(conj(r.path))) for r in raises])
    draws = [c for c in S.select("call", qname=q) if c.callkind == "method" and c.target == ".choice"]
    ok = False
    if len(draws) == 1:
        b, extra = api.bind_slots(api.GEN_SLOTS["choice"], draws[0].args, draws[0].kwargs)
        ok = draws[0].recv == RNG and b.get("a") == edges and b.get("size") == NE and b.get("replace") == ("const", False) and not extra
        ok = ok and (not raises or draws[0].order > raises[0].order)
    rep.check("DRAW.remove", ok, fwhere(f, draws[0].node if draws else None), "removed edges = default_rng(random_state).choice(edges, no_edges, replace=False)",
              "edges to remove are not `no_edges` distinct existing edges from the seeded generator")
    loops = [(k, v) for k, v in S.loopinfo.items() if v["func"] == q]
    ok = False
    if len(loops) == 1 and draws:
        lid, li = loops[0]
        e = ("elem", draws[0].result)
        st = S.select("store", qname=q)
        ok = li["iter"] == draws[0].result and len(st) == 1 and st[0].idx == ("tuple", (("sub", e, ("const", 0)), ("sub", e, ("const", 1)))) and \
            is_const(st[0].value, 0) and st[0].aug is None and list(li["init"].values()) == [("method", B, "copy", (), ())] and \
            T(summ.ret) == ("after", lid, li["changed"][0])
    if not ok and not loops and draws:
        # the same written without a loop: pruned[chosen[:, 0], chosen[:, 1]] = 0 (possibly guarded by `len(chosen) > 0`)
        st = S.select("store", qname=q)
        ch_ = draws[0].result
        col = lambda k_: ("sub", ch_, ("tuple", (FULL_, ("const", k_))))
        if len(st) == 1 and st[0].idx == ("tuple", (col(0), col(1))) and is_const(st[0].value, 0) and st[0].aug is None and st[0].base == ("method", B, "copy", (), ()):
            stored = ("store", st[0].base, st[0].idx, st[0].value, None)
            r_ = T(summ.ret)
            guard_ok = all(npred(c_, pol_) == ("nonempty", ch_) for c_, pol_ in st[0].path[len(draws[0].path):])
            ok = guard_ok and (r_ == stored or (r_[0] == "phi" and stored in (r_[2], r_[3]) and st[0].base in (r_[2], r_[3])))
    rep.check("RESULT.remove", ok, fwhere(f), "each drawn edge (fro, to) is cleared in a copy of the pattern, which is returned",
              "result is not `copy of the pattern with exactly the drawn entries set to 0`")


def add_rules(rep, prog):
    q = U + "add_edges"
    f = need(prog, q)
    S = Sym(prog, inline=inline_helpers(prog, "sempler.utils"))
    summ, _ = run_function(S, f)
    loops = [(k, v) for k, v in S.loopinfo.items() if v["func"] == q]
    if len(loops) != 1:
        raise Inconclusive("add_edges: expected one insertion loop", f.node)
    lid, li = loops[0]
    graphs = [k for k, v in li["init"].items() if v[0] == "method" and v[2] == "copy"]
    if len(graphs) != 1:
        raise Inconclusive("add_edges: the loop does not carry exactly one working graph: %s" % {k: fmt(v)[:40] for k, v in li["init"].items()}, f.node)
    g = graphs[0]
    B = li["init"][g][1]
    rep.check("BIN.add", B in BINS, fwhere(f), "works on a copy of the 0/1 pattern of A", "the working graph is a copy of %s, not of the 0/1 pattern" % fmt(B)[:60])
    mug = ("mu", lid, g)
    counters = [k for k, v in li["init"].items() if is_const(v, 0)]
    is_for = li["iter"] is not None
    # ---- candidate
    stores = S.select("store", qname=q)
    if len(stores) > 1:
        # e.g. set the entry in place and take it back when the graph is no longer a DAG: another way of trying a candidate, not read
        rep.unk("CAND.store", fwhere(f), "a round stores %d times into the working graph (set and undo?): this way of trying a candidate is not read" % len(stores))
        return
    if len(stores) != 1:
        rep.bad_form("CAND.store", fwhere(f), "each round must set exactly one entry of the candidate graph (found %d stores)" % len(stores))
        return
    st = stores[0]
    edges = None
    pos = None
    # g[fro, to] with (fro, to) = pair is g[pair]
    def pairfold(t):
        if not isinstance(t, tuple):
            return t
        if t and t[0] == "tuple" and len(t) == 2 and len(t[1]) == 2 and all(isinstance(x, tuple) and x and x[0] == "sub" for x in t[1]) and \
                t[1][0][1] == t[1][1][1] and is_const(t[1][0][2], 0) and is_const(t[1][1][2], 1):
            return pairfold(t[1][0][1])
        return tuple(pairfold(x) for x in t)
    st.idx = pairfold(st.idx)
    li["next"] = {k: pairfold(v) for k, v in li["next"].items()}
    if is_for and st.idx == ("elem", li["iter"]):
        edges = li["iter"]
    elif not is_for and st.idx[0] == "sub" and st.idx[2][0] == "mu" and st.idx[2][2] in counters:
        edges, pos = st.idx[1], st.idx[2][2]
    okc = st.base == ("method", mug, "copy", (), ()) and is_const(st.value, 1) and st.aug is None and edges is not None
    rep.check("CAND.store", okc, fwhere(f, st.node), "candidate = copy of the current graph with one candidate entry set to 1",
              "candidate graph is %s[%s] = %s" % (fmt(st.base)[:50], fmt(st.idx)[:50], fmt(st.value)))
    if not okc:
        return
    shuffled = edges[0] == "shuffled" and edges[2] == RNG
    rep.check("SEED.add", shuffled, fwhere(f, st.node), "candidates are shuffled by default_rng(random_state)", "candidate order does not come from the seeded generator: %s" % fmt(edges)[:80])
    lst = strip_list(edges[1]) if shuffled else strip_list(edges)
    okp, why = False, "candidate list is not zip(*np.where(mask))"
    if lst[0] == "ext" and lst[1] == "zip" and len(lst[2]) == 2:
        a, b = lst[2]
        if a[0] == "sub" and b[0] == "sub" and a[1] == b[1] and is_const(a[2], 0) and is_const(b[2], 1) and a[1][0] == "ext" and a[1][1] in ("numpy.where", "numpy.nonzero") and len(a[1][2]) == 1:
            mask = a[1][2][0]
            try:
                good = True
                why = ""
                for diag in (False, True):
                    for pair in ([(signs.Z, signs.Z), (signs.ONE, signs.Z), (signs.Z, signs.ONE), (signs.ONE, signs.ONE)] if not diag else [(signs.Z, signs.Z)]):
                        env = {PA: M({"*": (E(pair[0], "a"), E(pair[1], "b"))})}
                        r = Eval(env, {}, diagonal=diag).ev(mask)
                        ij, ji = r.d["*"]
                        want = (not diag) and pair == (signs.Z, signs.Z)
                        if PW.nzb(ij) is not want or PW.nzb(ji) is not want:
                            good = False
                            why = "pair %s%s: candidate membership (%s, %s), expected %s in both orientations" % (pair, " on the diagonal" if diag else "", PW.nzb(ij), PW.nzb(ji), want)
                okp = good
            except Inconclusive as e:
                why = e.why
    rep.check("CAND.pairs", okp, fwhere(f), "candidates = ordered pairs (i, j), i != j, not adjacent in either direction - both orientations of every free pair",
              "candidate pairs deviate: " + why)
    # ---- acceptance only under is_dag(candidate)
    cand = ("store", st.base, st.idx, st.value, None)
    nxg = li["next"][g]
    isd = ("call", U + "is_dag", (cand,), (("A", cand),))
    oka = nxg in (("phi", isd, cand, mug), ("phi", ("unop", "not", isd), mug, cand))
    rep.check("ACCEPT.is_dag", oka, fwhere(f, st.node), "the candidate replaces the graph only when is_dag(candidate) holds; otherwise the graph is unchanged",
              "the graph is updated as %s" % fmt(nxg)[:120])
    # ---- how many edges were added so far: recomputed (graph.sum() - pattern.sum()) or an explicit counter
    recount = padd(poly(("method", mug, "sum", (), ())), poly(("method", B, "sum", (), ())), -1)
    counts = [pkey(recount)]
    cnt_name = None
    for k in counters:
        nx = li["next"][k]
        muk = ("mu", lid, k)
        inc = (("binop", "+", muk, ("const", 1)), ("binop", "+", ("const", 1), muk))
        if k != pos and nx[0] == "phi" and ((nx[1] == isd and nx[2] in inc and nx[3] == muk) or (nx[1] == ("unop", "not", isd) and nx[3] in inc and nx[2] == muk)):
            counts.append(pkey(poly(muk)))
            cnt_name = k
    # every attempt happens only while fewer than no_edges edges were added (loop test or a check at the top of the round)
    attempt = S.select("call", qname=q, target=U + "is_dag")
    att = [c for c in attempt if lid in c.loops]
    guard_ok = False
    if att:
        have = resolve(conj(att[0].path))
        for cnt in counts:
            d = dict(cnt)
            lt = (">0", pkey(padd(poly(NE), d, -1)))
            ne_ = ("!=0", PR.canon_sign_key(padd(poly(NE), d, -1)))
            if lt in have or ne_ in have:
                guard_ok = True
    rep.check("LOOP.count-guard", guard_ok, fwhere(f, li["node"]), "a candidate is only tried while fewer than no_edges edges have been added (also for no_edges = 0)",
              "candidates are tried without first checking that the requested number is not yet reached: a request that is already satisfied (e.g. no_edges = 0) keeps adding edges")
    # ---- exhaustion: every candidate is tried at most once, none is skipped
    if is_for:
        rep.ok("LOOP.advance", fwhere(f, li["node"]), "iterates over the candidate list: each candidate once")
    else:
        mui = ("mu", lid, pos)
        rep.check("LOOP.advance", li["next"][pos] in (("binop", "+", mui, ("const", 1)), ("binop", "+", ("const", 1), mui)), fwhere(f), "one candidate per round (i += 1)",
                  "candidate index is updated as %s" % fmt(li["next"][pos])[:60])
        got = resolve(conj([(li["test"], True)]))
        left = (">0", pkey(padd(poly(("ext", "len", (edges,), ())), poly(mui), -1)))
        rep.check("LOOP.exit", left in got and len(got) == 2, fwhere(f, li["node"]), "continues while (edges added < no_edges) and (candidates left): leaves only when done or exhausted",
                  "loop condition is %s" % sorted(pred_fmt(p) for p in got))
    # ---- guard
    raises = [r for r in S.select("raise", qname=q) if r.exctype == "ValueError"]
    E_ = poly(("method", B, "sum", (), ()))
    wants = []
    for p_ in (("ext", "len", (B,), ()), ("ext", "len", (PA,), ())):
        pp = pmul(poly(p_), padd(poly(p_), pconst(1), -1))
        wants.append(frozenset([(">0", pkey(padd(padd(poly(NE), {m: c / 2 for m, c in pp.items()}, -1), E_)))]))
    ok = len(raises) == 1 and resolve(conj(raises[0].path)) in wants and not raises[0].loops
    rep.check("GUARD.add", ok, fwhere(f, raises[0].node if raises else None), "ValueError iff no_edges > p(p-1)/2 - |E| (boundary exact, |E| counted on the pattern)",
              "guard is %s" % [sorted(pred_fmt(p) for p in resolve(conj(r.path))) for r in raises])
    rets = S.select("return", qname=q)
    if len(rets) > 1:
        # early exits: returning the untouched copy of the pattern when nothing is to be added is the general path with zero rounds; a graph
        # built any other way is not "the input plus candidates that passed is_dag"
        start = li["init"][g]
        nothing = [("==0", PR.canon_sign_key(poly(NE))), ("==0", pkey(poly(NE)))]
        others = []
        for r_ in rets:
            if r_.value == ("after", lid, g):
                continue
            trivial = r_.value in (start, ("method", start, "copy", (), ()), B and ("method", B, "copy", (), ())) and any(x_ in nothing for x_ in resolve(conj(r_.path)))
            if not trivial:
                others.append(r_)
        if others:
            rep.bad("RESULT.add", fwhere(f, others[0].node), "an early return hands out %s: not the input pattern plus candidates accepted by is_dag, and not covered by the final count" % fmt(others[0].value)[:70])
            return
        rets = [r_ for r_ in rets if r_.value == ("after", lid, g)]
    okr = len(rets) == 1 and rets[0].value == ("after", lid, g)
    asserted = False
    if okr:
        have = resolve(conj(tuple(rets[0].path) + tuple(getattr(rets[0], "asserts", ()))))
        fins = [padd(poly(("method", ("after", lid, g), "sum", (), ())), poly(("method", B, "sum", (), ())), -1)]
        if cnt_name:
            fins.append(poly(("after", lid, cnt_name)))
        asserted = any(("==0", PR.canon_sign_key(padd(fin, poly(NE), -1))) in have for fin in fins)
    rep.check("RESULT.add", okr and asserted, fwhere(f), "returns the final graph under the assertion `edges added == no_edges`",
              "result is not guarded by the final count assertion")


def run(prog, rep, tier):
    remove_rules(rep, prog)
    add_rules(rep, prog)
    # "returns an acyclic supergraph": add_edges accepts a candidate exactly when is_dag says so - C03's acyclicity core is part of it
    from .C03 import acyclicity_core
    acyclicity_core(rep, prog)
    pattern_entries(prog, rep, [(U + "add_edges", "A"), (U + "remove_edges", "A")], not_charged=(U + "topological_ordering",))
    rep.require_count("GUARD", 2)
    rep.require_count("PAT.entry", 2)
    rep.assume("trying every non-adjacent ordered pair once reaches any feasible edge count (graph argument)")


from .. import pred as PR  # noqa: E402
