"""C12 - sampled intervention targets respect size, range and disjointness (structural part).

Decided: (GUARD) the three ValueError predicates are, after normalisation, exactly `size is a tuple and
len(size) != 2`, `max_size > p` and `not replace and max_size * K > p` (boundary exact: `>=` or an
off-by-one is a different normal form), with max_size = size[1] for a 2-tuple and size otherwise, and all
of them precede the first draw; (SIZES) sizes come from rng.integers(size[0], size[1] + 1, K) (inclusive
upper bound) or [size] * K; (CHOICE) each intervention is rng.choice(pool, size=sizes[i], replace=False) -
distinct variables - from range(p); (COUNT) the loop runs over range(K) and appends exactly once per
iteration; (POOL) with replace=False the pool starts as set(range(p)) and loses every drawn target before
the next draw; (SEED) one generator default_rng(random_state).
Also decided: building an error message cannot itself raise (`%` with an argument that may be a tuple); sizes and targets are
successive draws of one generator (RNG rules of C13).
Not decided: 'over seeds every size and variable occurs' (statistical).
"""
from .common import *
from .. import api
from ..pred import poly, pkey, padd, pconst, pmul, resolve, conj
from ..sym import kwargs_of

EXPLANATION = __doc__
Q = "sempler.generators.intervention_targets"
RNG = ("ext", "numpy.random.default_rng", (("param", "random_state"),), ())
SIZE, Pp, K, REPL = ("param", "size"), ("param", "p"), ("param", "K"), ("param", "replace")
ISTUP = ("ext", "isinstance", (SIZE, ("extref", "tuple")), ())
LEN = ("ext", "len", (SIZE,), ())


def is_tuple2(c):
    """condition `size is a 2-tuple`"""
    p = resolve(conj([(c, True)]))
    want = frozenset([("atom", ISTUP, True), ("==0", pkey(padd(poly(LEN), pconst(2), -1)))])
    alt = frozenset([("atom", ("cmp", "==", ("ext", "type", (SIZE,), ()), ("extref", "tuple")), True), ("==0", pkey(padd(poly(LEN), pconst(2), -1)))])
    return p == want or p == alt


def max_size_term(t):
    """phi(2-tuple ? size[1] : size)"""
    return t[0] == "phi" and is_tuple2(t[1]) and t[2] == ("sub", SIZE, ("const", 1)) and t[3] == SIZE


def run(prog, rep, tier):
    f = need(prog, Q)
    S = Sym(prog, inline=inline_helpers(prog, "sempler.generators"))
    summ, _ = run_function(S, f)
    if len([1 for v in S.loopinfo.values() if v["func"] == Q]) < 2 and any(isinstance(x, tuple) and x[:1] == ("comp",) for x in walk(T(summ.ret))):
        # a sampling mode written as a comprehension ([list(rng.choice(...)) for i in range(K)]): read as the loop with append it abbreviates
        S = Sym(prog, inline=inline_helpers(prog, "sempler.generators"))
        S.desugar = "all"
        summ, _ = run_function(S, f)
    message_safe(rep, S, f, "GUARD.message")
    # 0 is a legal value of every numeric argument (K = 0 interventions, size 0, a range (0, hi)): `size or 1`, `K or 1`, `x if size else y` replace it
    NUM = {("param", n_) for n_ in ("size", "K", "p")}
    seen_terms = []
    for fact in S.facts:
        if fact.qname == Q:
            seen_terms += [getattr(fact, "value", None), getattr(fact, "base", None), getattr(fact, "idx", None)] + list(getattr(fact, "args", []) or []) + [c for c, _ in fact.path]
    seen_terms.append(T(summ.ret))
    falsy = set()
    for t0 in seen_terms:
        if t0 is None:
            continue
        for x in walk(t0):
            if isinstance(x, tuple) and len(x) == 3 and x[0] == "bool" and x[1] == "or" and len(x[2]) >= 2 and x[2][0] in NUM:
                falsy.add((x[2][0][1], fmt(x)[:60]))
            elif isinstance(x, tuple) and len(x) == 4 and x[0] == "phi":
                c_ = x[1]
                while isinstance(c_, tuple) and c_[0] == "unop" and c_[1] in ("not", "truth"):
                    c_ = c_[2]
                if c_ in NUM:
                    falsy.add((c_[1], "... if %s else ..." % c_[1]))
    for c_, pol in [(c, pl) for fact in S.facts if fact.qname == Q for c, pl in fact.path]:
        while isinstance(c_, tuple) and c_[0] == "unop" and c_[1] in ("not", "truth"):
            c_ = c_[2]
        if c_ in NUM:
            falsy.add((c_[1], "if %s:" % c_[1]))
    if falsy:
        for name_, txt in sorted(falsy):
            rep.bad("FALSY.zero", fwhere(f), "`%s` takes the truth value of the numeric argument `%s`: the legal value 0 is treated like a missing argument" % (txt, name_))
    else:
        rep.ok("FALSY.zero", fwhere(f), "no branch or default depends on the truth value of K / size / p (0 is a legal value)")
    # sizes and targets must be successive draws of *one* generator: two generators built from the same seed repeat each other
    from .C13 import rng_rules
    rng_rules(rep, prog, f)
    raises = [r for r in S.select("raise", qname=Q) if r.exctype == "ValueError"]
    draws = [c for c in S.select("call", qname=Q) if c.callkind == "method" and c.target == ".choice"]
    # which requests are rejected is a function of the request: a ValueError that depends on what was *drawn* (the realised sizes)
    # accepts or rejects the same request depending on the seed
    for r in raises:
        drawn = [x for c, _ in r.path for x in walk(c) if isinstance(x, tuple) and len(x) == 2 and x[0] == "$draw"]
        if drawn:
            rep.bad("GUARD.random", fwhere(f, r.node), "this ValueError depends on a random draw (`%s`): the same request is accepted or rejected depending on the seed" %
                    "; ".join(sorted(pred_fmt(p_) for p_ in resolve(conj(r.path))))[:120])
    # `isinstance(size, tuple)` alone selects the range form once tuples of another length have been rejected on the way
    len_guarded = any(resolve(conj(r.path)) == frozenset([("atom", ISTUP, True), ("!=0", pkey(padd(poly(LEN), pconst(2), -1)))]) for r in raises)

    def tuple_cond(c):
        return is_tuple2(c) or (len_guarded and resolve(conj([(c, True)])) == frozenset([("atom", ISTUP, True)]))
    found = {}
    for r in raises:
        cs = resolve(conj(r.path))
        # G1: tuple and len != 2
        if cs == frozenset([("atom", ISTUP, True), ("!=0", pkey(padd(poly(LEN), pconst(2), -1)))]):
            found["tuple-length"] = r
            continue
        gts = [p for p in cs if p[0] == ">0"]
        rest = cs - set(gts)
        if len(gts) == 1:
            pd = dict(gts[0][1])
            atoms_ = {a for m in pd for a in m}
            ms = [a for a in atoms_ if isinstance(a, tuple) and a[0] == "phi"]
            if len(ms) == 1 and (max_size_term(ms[0]) or (ms[0][0] == "phi" and tuple_cond(ms[0][1]) and ms[0][2] == ("sub", SIZE, ("const", 1)) and ms[0][3] == SIZE)):
                Mx = ms[0]
                if pkey(pd) == pkey(padd(poly(Mx), poly(Pp), -1)) and not rest:
                    found["max-size"] = r
                elif pkey(pd) == pkey(padd(pmul(poly(Mx), poly(K)), poly(Pp), -1)) and rest == frozenset([("atom", REPL, False)]):
                    found["without-replacement"] = r
    labels = {"tuple-length": "size is a tuple and len(size) != 2", "max-size": "max_size > p", "without-replacement": "not replace and max_size * K > p"}
    first_draw = min([d.order for d in draws] or [10**9])
    if len(found) < 3 and raises:
        # the three rejections may be spelled with nested ifs / one combined test / a helper with its own order of checks: compare
        # the *disjunction* of all ValueError path conditions with the documented one, as propositional formulas over the
        # comparisons that occur (max_size abstracted: size[1] for a tuple, size otherwise)
        from ..pred import prop_compare
        MAXS = ("sym", "max_size")

        def canon(t):
            if isinstance(t, tuple) and len(t) == 4 and t[0] == "phi" and t[2] == ("sub", SIZE, ("const", 1)) and t[3] == SIZE and \
                    (is_tuple2(t[1]) or resolve(conj([(t[1], True)])) == frozenset([("atom", ISTUP, True)])):
                return MAXS
            if isinstance(t, tuple):
                return tuple(canon(x) for x in t)
            return t
        got = ("or", frozenset(("and", frozenset(conj([(canon(c), pol) for c, pol in r.path]))) for r in raises))
        T_, L_ = ("atom", ISTUP, True), ("!=0", pkey(padd(poly(LEN), pconst(2), -1)))
        M_ = (">0", pkey(padd(poly(MAXS), poly(Pp), -1)))
        Q_ = (">0", pkey(padd(pmul(poly(MAXS), poly(K)), poly(Pp), -1)))
        want = ("or", frozenset([("and", frozenset([T_, L_])), M_, ("and", frozenset([("atom", REPL, False), Q_]))]))
        verdict, info = prop_compare(got, want)
        early = all(r.order < first_draw and not r.loops for r in raises)
        if verdict == "equal":
            for k, label in labels.items():
                rep.check("GUARD." + k, early, fwhere(f, raises[0].node, construct="%s: %s" % (k, head(raises[0].node))), "ValueError iff %s (the union of the %d ValueError conditions equals the "
                          "documented one), before any draw" % (label, len(raises)), "the guards do not precede the draws")
            rep.ok("GUARD.count", fwhere(f), "%d ValueError sites whose conditions together are exactly the three documented rejections" % len(raises))
            found = None
        elif verdict == "unknown":
            # a comparison over one of the documented quantities with another boundary (>= for >, the operands swapped) is a
            # different rejection, not an unknown one: the per-guard report below says which one is missing
            from ..pred import prop_atoms
            def pk(a):
                return a[1] if a[0] in (">0", ">=0", "==0", "!=0") else None
            def neg(k):
                return pkey({m: -c for m, c in dict(k).items()})
            known = {pk(x) for x in (L_, M_, Q_)} | {neg(pk(x)) for x in (L_, M_, Q_)}
            extra = prop_atoms(got) - prop_atoms(want)
            if not any(pk(a) is not None and pk(a) in known for a in extra):
                rep.unk("GUARD.union", fwhere(f), "the ValueError conditions are not in a form that can be compared with the documented rejections: %s" % info)
                found = None
    if found is None:
        labels = {}
    for k, label in labels.items():
        r = found.get(k)
        if r is None:
            rep.bad_form("GUARD." + k, fwhere(f), "no ValueError is raised exactly when `%s` (boundary-exact normal form); raise conditions found: %s" % (
                label, ["; ".join(sorted(pred_fmt(p) for p in resolve(conj(x.path)))) for x in raises]))
        else:
            ok = r.order < first_draw and not r.loops
            rep.check("GUARD." + k, ok, fwhere(f, r.node), "ValueError iff %s, before any draw" % label, "the guard `%s` does not precede the draws" % label)
    if found is not None:
        rep.check("GUARD.count", len(raises) == 3, fwhere(f), "exactly the three documented rejections", "%d ValueError sites (3 documented)" % len(raises))
    # SIZES
    ints = [c for c in S.select("call", qname=Q) if c.callkind == "method" and c.target == ".integers"]
    ok, why = False, "no rng.integers call"
    sizes_t = None
    if len(ints) == 1:
        c = ints[0]
        b, extra = api.bind_slots(api.GEN_SLOTS["integers"], c.args, c.kwargs)
        hi = b.get("high")
        incl = (hi == ("binop", "+", ("sub", SIZE, ("const", 1)), ("const", 1)) and b.get("endpoint") in (None, ("const", False))) or \
               (hi == ("sub", SIZE, ("const", 1)) and b.get("endpoint") == ("const", True))
        ok = c.recv == RNG and b.get("low") == ("sub", SIZE, ("const", 0)) and incl and b.get("size") == K and not extra
        want2 = frozenset([("atom", ISTUP, True), ("==0", pkey(padd(poly(LEN), pconst(2), -1)))])
        ok = ok and (any(is_tuple2(cond) and pol for cond, pol in c.path) or want2 <= resolve(conj(c.path)))
        why = "low=%s high=%s size=%s" % tuple(fmt(b.get(k, ("const", None))) for k in ("low", "high", "size"))
        sizes_t = c.result
    def plain(t_):
        # an expression over the arguments themselves (size[0], size[1] + 1, K, p ...): a deviation in such a term is a decided one; a term that went
        # through branches, helpers' records or loops is a form the rules do not read
        return t_ is None or not any(isinstance(x, tuple) and x and x[0] in ("phi", "after", "mu", "comp", "call", "method", "join", "store", "attr") for x in walk(t_))
    sizes_unread = False
    if ok:
        rep.ok("SIZES.range", fwhere(f, ints[0].node), "sizes = rng.integers(size[0], size[1] + 1, K): inclusive range, one per intervention")
    elif len(ints) == 1 and ints[0].recv == RNG and all(plain(b.get(k_)) for k_ in ("low", "high", "size")) and \
            (any(is_tuple2(cond) and pol for cond, pol in ints[0].path) or want2 <= resolve(conj(ints[0].path))):
        rep.bad("SIZES.range", fwhere(f, ints[0].node), "range sizes deviate: " + why)
    elif not ints and not any(c.callkind == "method" and c.target in (".choice", ".random", ".uniform") and not c.loops for c in S.select("call", qname=Q)):
        rep.bad_form("SIZES.range", fwhere(f), "a (lo, hi) request draws no sizes: no rng.integers call")
    else:
        sizes_unread = True
        rep.unk("SIZES.range", fwhere(f, ints[0].node if ints else None), "how the sizes are drawn for a (lo, hi) request is not in a form these rules read (%s)" % why)
    # CHOICE / COUNT / POOL
    loops = sorted([(k, v) for k, v in S.loopinfo.items() if v["func"] == Q], key=lambda kv: kv[0][1])
    if len(draws) == 2 and len(loops) < 2 and any(isinstance(x, tuple) and x[:1] == ("comp",) for x in walk(T(summ.ret))):
        # a mode written as a comprehension instead of a loop with append: the loop rules do not read it
        rep.unk("COUNT.loops", fwhere(f), "a sampling mode is written as a comprehension: the per-loop rules (COUNT / CHOICE / POOL) do not read this idiom")
    elif len(loops) == 1 and len(draws) <= 1:
        # both modes served by one loop (the pool handled by an object or a helper that knows the mode): the per-mode rules have no loop pair to read
        rep.unk("COUNT.loops", fwhere(f), "one sampling loop serves both modes: how the pool differs between the modes is not read")
    else:
        rep.check("COUNT.loops", len(loops) == 2 and len(draws) == 2, fwhere(f), "one sampling loop per mode (with / without replacement)",
                  "expected two sampling loops with one draw each, found %d loops / %d draws" % (len(loops), len(draws)))
    fixed = ("binop", "*", ("list", (SIZE,)), K)
    for lid, li in loops:
        it = li["iter"]
        fixed_forms = (fixed, ("ext", "numpy.repeat", (SIZE, K), ()), ("ext", "numpy.full", (K, SIZE), ()), ("binop", "*", ("tuple", (SIZE,)), K),
                       ("binop", "*", K, ("list", (SIZE,))))

        def is_sizes(t_):
            # the K sizes: the range draw (K values) for a (lo, hi) request, [size] * K otherwise
            return isinstance(t_, tuple) and len(t_) == 4 and t_[0] == "phi" and tuple_cond(t_[1]) and t_[2] == sizes_t and t_[3] in fixed_forms
        rK = ("ext", "range", (K,), ())
        okK = it in (rK, ("ext", "enumerate", (rK,), ()))
        zipped = None          # the sizes vector the loop runs along (zip(range(K), sizes) / enumerate(sizes) / sizes): K rounds as well
        if it[0] == "ext" and it[1] == "zip" and len(it[2]) == 2 and not it[3] and rK in it[2] and any(is_sizes(x_) for x_ in it[2]):
            zipped = [x_ for x_ in it[2] if is_sizes(x_)][0]
        elif it[0] == "ext" and it[1] == "enumerate" and len(it[2]) == 1 and is_sizes(it[2][0]):
            zipped = it[2][0]
        elif is_sizes(it):
            zipped = it
        okK = okK or zipped is not None
        counter = [("idx", ("ext", "range", (K,), ())), ("elem", ("ext", "range", (K,), ()))]
        mine = [d for d in draws if lid in d.loops]
        apps = [c for c in S.select("call", qname=Q) if c.callkind == "method" and c.target == ".append" and lid in c.loops]
        w = fwhere(f, li["node"])
        lf = [x for x in S.select("loop", qname=Q) if x.lid == lid]
        uncond = bool(apps) and bool(lf) and resolve(conj(apps[0].path)) == resolve(conj(lf[0].path))
        if not mine and len(apps) <= 1:
            # a loop that hands out targets drawn elsewhere (one pooled draw, then slices): another algorithm, whose
            # disjointness / size argument these rules do not read
            rep.unk("COUNT.K", w, "this loop draws nothing itself (targets drawn in one go and handed out afterwards?): idiom not read")
            continue
        if not okK and (sizes_unread or not plain(it)):
            rep.unk("COUNT.K", w, "the loop runs over %s: whether that is K rounds is not read" % fmt(it)[:80])
            continue
        rep.check("COUNT.K", okK and len(apps) == 1 and len(mine) == 1 and len(apps[0].loops) == len(mine[0].loops) and uncond, w,
                  "range(K) iterations, one unconditional append each", "the loop does not append exactly one intervention in each of the K rounds (%s)" % (
                      "the append is conditional: %s" % sorted(pred_fmt(p_) for p_ in resolve(conj(apps[0].path)) - resolve(conj(lf[0].path))) if apps and lf and not uncond else "loop / append shape"))
        if len(mine) != 1 or len(apps) != 1:
            continue
        d = mine[0]
        b, extra = api.bind_slots(api.GEN_SLOTS["choice"], d.args, d.kwargs)
        sz = b.get("size")
        if zipped is not None:
            counter = counter + [("idx", zipped)]
        sz_ok = sz is not None and ((sz[0] == "sub" and sz[2] in counter and is_sizes(sz[1])) or (zipped is not None and sz == ("elem", zipped)))
        rep.check("CHOICE.distinct", d.recv == RNG and b.get("replace") == ("const", False) and not extra, fwhere(f, d.node),
                  "rng.choice(..., replace=False): distinct variables within an intervention", "targets within an intervention may repeat (replace is not False) or another generator is used")
        wrong_index = sz is not None and sz[0] == "sub" and is_sizes(sz[1]) and sz[2] not in counter      # the recognised sizes vector, read at another position
        if not sz_ok and sz is not None and not wrong_index and (sizes_unread or not plain(sz)) and not (sz[0] == "phi" and tuple_cond(sz[1])):
            rep.unk("CHOICE.size", fwhere(f, d.node), "intervention size is %s: not read" % fmt(sz)[:100])
        else:
            rep.check("CHOICE.size", sz_ok, fwhere(f, d.node), "size = sizes[i] with sizes = range draw | [size] * K", "intervention size is %s" % fmt(sz)[:100] if sz else "no size")
        appended = apps[0].args[0]
        rep.check("CHOICE.recorded", strip_list(appended) == d.result, fwhere(f, apps[0].node), "the drawn targets are what is appended", "the appended value is not the draw")
        pool = strip_list(b.get("a"))
        mode = resolve(conj(d.path))
        with_repl = ("atom", REPL, True) in mode
        if not with_repl and ("atom", REPL, False) not in mode:
            rep.unk("POOL.mode", fwhere(f, d.node), "cannot tell whether this draw belongs to the with- or without-replacement mode")
            continue
        if with_repl:
            rep.check("POOL.all", pool == ("ext", "range", (Pp,), ()) or pool == Pp, fwhere(f, d.node), "drawn from range(p)", "pool is %s" % fmt(pool)[:60])
        else:
            carried = [k for k in li["init"] if k != "interventions" and li["init"][k] != ("list", ())]
            ok = False
            if len(carried) == 1:
                nm = carried[0]
                mu = ("mu", lid, nm)
                init_ok = strip_list(li["init"][nm]) in (("ext", "range", (Pp,), ()), ("ext", "numpy.arange", (Pp,), ()))
                nx = li["next"][nm]
                shrink = (nx[0] == "binop" and nx[1] == "-" and nx[2] == mu and strip_list(nx[3]) == d.result) or \
                    (nx[0] == "mut" and nx[1] == mu and nx[2] == "difference_update" and len(nx[3]) == 1 and strip_list(nx[3][0]) == d.result)
                ok = init_ok and shrink and pool == mu
            rep.check("POOL.shrinks", ok, fwhere(f, d.node), "pool starts as range(p) and loses each intervention before the next draw: no variable twice",
                      "without replacement the pool is not `range(p)` minus everything drawn so far")
    negative_zero_slices(rep, prog, [Q], rule="SLICE.minus-zero")
    ret = T(summ.ret)
    if ret[0] == "phi" and ret[1] == REPL and any(x[0] == "comp" for x in ret[2:4]) and all(x[0] in ("after", "comp") for x in ret[2:4]):
        rep.unk("RESULT.list", fwhere(f), "a mode returns a comprehension: not read by the list rules")
    elif ret[0] == "after" and len(loops) == 1:
        rep.unk("RESULT.list", fwhere(f), "one list built by one loop for both modes: not read by the per-mode rules")
    elif ret[0] == "join" or any(isinstance(x, tuple) and x[:1] == ("comp",) for x in walk(ret)):
        rep.unk("RESULT.list", fwhere(f), "the modes return through different statements / a comprehension (%s): not read by the list rules" % fmt(ret)[:80])
    else:
        rep.check("RESULT.list", ret[0] == "phi" and ret[1] == REPL and all(x[0] == "after" for x in ret[2:4]), fwhere(f),
                  "returns the list built by the selected mode", "result is %s" % fmt(ret)[:80])
    rep.require_count("GUARD", 4)
    rep.require_count("CHOICE", 5)
    rep.assume("Generator.integers(low, high) excludes high; Generator.choice(replace=False) returns distinct elements")


def strip_list(t):
    while isinstance(t, tuple) and t[0] == "ext" and t[1] in ("list", "set", "sorted", "tuple", "numpy.array") and len(t[2]) == 1:
        t = t[2][0]
    return t
