"""C12 - sampled intervention targets respect size, range and disjointness (structural part).

Decided: (GUARD) the three ValueError predicates are, after normalisation, exactly `size is a tuple and
len(size) != 2`, `max_size > p` and `not replace and max_size * K > p` (boundary exact: `>=` or an
off-by-one is a different normal form), with max_size = size[1] for a 2-tuple and size otherwise, and all
of them precede the first draw; (SIZES) sizes come from rng.integers(size[0], size[1] + 1, K) (inclusive
upper bound) or [size] * K; (CHOICE) each intervention is rng.choice(pool, size=sizes[i], replace=False) -
distinct variables - from range(p); (COUNT) the loop runs over range(K) and appends exactly once per
iteration; (POOL) with replace=False the pool starts as set(range(p)) and loses every drawn target before
the next draw; (SEED) one generator default_rng(random_state).
Also decided: building an error message cannot itself raise (`%` with an argument that may be a tuple); sizes and targets are
successive draws of one generator (RNG rules of C13).
Not decided: 'over seeds every size and variable occurs' (statistical).
"""
from .common import *
from .. import api
from ..pred import poly, pkey, padd, pconst, pmul, resolve, conj
from ..sym import kwargs_of

EXPLANATION = __doc__
Q = "sempler.generators.intervention_targets"
RNG = ("ext", "numpy.random.default_rng", (("param", "random_state"),), ())
SIZE, Pp, K, REPL = ("param", "size"), ("param", "p"), ("param", "K"), ("param", "replace")
ISTUP = ("ext", "isinstance", (SIZE, ("extref", "tuple")), ())
LEN = ("ext", "len", (SIZE,), ())


def is_tuple2(c):
    """condition `size is a 2-tuple`"""
    p = resolve(conj([(c, True)]))
    want = frozenset([("atom", ISTUP, True), ("==0", pkey(padd(poly(LEN), pconst(2), -1)))])
    alt = frozenset([("atom", ("cmp", "==", ("ext", "type", (SIZE,), ()), ("extref", "tuple")), True), ("==0", pkey(padd(poly(LEN), pconst(2), -1)))])
    return p == want or p == alt


def max_size_term(t):
    """phi(2-tuple ? size[1] : size)"""
    return t[0] == "phi" and is_tuple2(t[1]) and t[2] == ("sub", SIZE, ("const", 1)) and t[3] == SIZE


def run(prog, rep, tier):
    f = need(prog, Q)
    S = Sym(prog, inline=inline_helpers(prog, "sempler.generators"))
    summ, _ = run_function(S, f)
    message_safe(rep, S, f, "GUARD.message")
    # sizes and targets must be successive draws of *one* generator: two generators built from the same seed repeat each other
    from .C13 import rng_rules
    rng_rules(rep, prog, f)
    raises = [r for r in S.select("raise", qname=Q) if r.exctype == "ValueError"]
    draws = [c for c in S.select("call", qname=Q) if c.callkind == "method" and c.target == ".choice"]
    found = {}
    for r in raises:
        cs = resolve(conj(r.path))
        # G1: tuple and len != 2
        if cs == frozenset([("atom", ISTUP, True), ("!=0", pkey(padd(poly(LEN), pconst(2), -1)))]):
            found["tuple-length"] = r
            continue
        gts = [p for p in cs if p[0] == ">0"]
        rest = cs - set(gts)
        if len(gts) == 1:
            pd = dict(gts[0][1])
            atoms_ = {a for m in pd for a in m}
            ms = [a for a in atoms_ if isinstance(a, tuple) and a[0] == "phi"]
            if len(ms) == 1 and max_size_term(ms[0]):
                Mx = ms[0]
                if pkey(pd) == pkey(padd(poly(Mx), poly(Pp), -1)) and not rest:
                    found["max-size"] = r
                elif pkey(pd) == pkey(padd(pmul(poly(Mx), poly(K)), poly(Pp), -1)) and rest == frozenset([("atom", REPL, False)]):
                    found["without-replacement"] = r
    labels = {"tuple-length": "size is a tuple and len(size) != 2", "max-size": "max_size > p", "without-replacement": "not replace and max_size * K > p"}
    first_draw = min([d.order for d in draws] or [10**9])
    for k, label in labels.items():
        r = found.get(k)
        if r is None:
            rep.bad("GUARD." + k, fwhere(f), "no ValueError is raised exactly when `%s` (boundary-exact normal form); raise conditions found: %s" % (
                label, ["; ".join(sorted(pred_fmt(p) for p in resolve(conj(x.path)))) for x in raises]))
        else:
            ok = r.order < first_draw and not r.loops
            rep.check("GUARD." + k, ok, fwhere(f, r.node), "ValueError iff %s, before any draw" % label, "the guard `%s` does not precede the draws" % label)
    rep.check("GUARD.count", len(raises) == 3, fwhere(f), "exactly the three documented rejections", "%d ValueError sites (3 documented)" % len(raises))
    # SIZES
    ints = [c for c in S.select("call", qname=Q) if c.callkind == "method" and c.target == ".integers"]
    ok, why = False, "no rng.integers call"
    sizes_t = None
    if len(ints) == 1:
        c = ints[0]
        b, extra = api.bind_slots(api.GEN_SLOTS["integers"], c.args, c.kwargs)
        hi = b.get("high")
        incl = (hi == ("binop", "+", ("sub", SIZE, ("const", 1)), ("const", 1)) and b.get("endpoint") in (None, ("const", False))) or \
               (hi == ("sub", SIZE, ("const", 1)) and b.get("endpoint") == ("const", True))
        ok = c.recv == RNG and b.get("low") == ("sub", SIZE, ("const", 0)) and incl and b.get("size") == K and not extra
        ok = ok and any(is_tuple2(cond) and pol for cond, pol in c.path)
        why = "low=%s high=%s size=%s" % tuple(fmt(b.get(k, ("const", None))) for k in ("low", "high", "size"))
        sizes_t = c.result
    rep.check("SIZES.range", ok, fwhere(f, ints[0].node if ints else None), "sizes = rng.integers(size[0], size[1] + 1, K): inclusive range, one per intervention",
              "range sizes deviate: " + why)
    # CHOICE / COUNT / POOL
    loops = sorted([(k, v) for k, v in S.loopinfo.items() if v["func"] == Q], key=lambda kv: kv[0][1])
    rep.check("COUNT.loops", len(loops) == 2 and len(draws) == 2, fwhere(f), "one sampling loop per mode (with / without replacement)",
              "expected two sampling loops with one draw each, found %d loops / %d draws" % (len(loops), len(draws)))
    fixed = ("binop", "*", ("list", (SIZE,)), K)
    for lid, li in loops:
        it = li["iter"]
        okK = it in (("ext", "range", (K,), ()), ("ext", "enumerate", (("ext", "range", (K,), ()),), ()))
        counter = [("idx", ("ext", "range", (K,), ())), ("elem", ("ext", "range", (K,), ()))]
        mine = [d for d in draws if lid in d.loops]
        apps = [c for c in S.select("call", qname=Q) if c.callkind == "method" and c.target == ".append" and lid in c.loops]
        w = fwhere(f, li["node"])
        lf = [x for x in S.select("loop", qname=Q) if x.lid == lid]
        uncond = bool(apps) and bool(lf) and resolve(conj(apps[0].path)) == resolve(conj(lf[0].path))
        if not mine and len(apps) <= 1:
            # a loop that hands out targets drawn elsewhere (one pooled draw, then slices): another algorithm, whose
            # disjointness / size argument these rules do not read
            rep.unk("COUNT.K", w, "this loop draws nothing itself (targets drawn in one go and handed out afterwards?): idiom not read")
            continue
        rep.check("COUNT.K", okK and len(apps) == 1 and len(mine) == 1 and len(apps[0].loops) == len(mine[0].loops) and uncond, w,
                  "range(K) iterations, one unconditional append each", "the loop does not append exactly one intervention in each of the K rounds (%s)" % (
                      "the append is conditional: %s" % sorted(pred_fmt(p_) for p_ in resolve(conj(apps[0].path)) - resolve(conj(lf[0].path))) if apps and lf and not uncond else "loop / append shape"))
        if len(mine) != 1 or len(apps) != 1:
            continue
        d = mine[0]
        b, extra = api.bind_slots(api.GEN_SLOTS["choice"], d.args, d.kwargs)
        sz = b.get("size")
        fixed_forms = (fixed, ("ext", "numpy.repeat", (SIZE, K), ()), ("ext", "numpy.full", (K, SIZE), ()), ("binop", "*", ("tuple", (SIZE,)), K),
                       ("binop", "*", K, ("list", (SIZE,))))
        sz_ok = sz is not None and sz[0] == "sub" and sz[2] in counter and sz[1][0] == "phi" and is_tuple2(sz[1][1]) and \
            sz[1][2] == sizes_t and sz[1][3] in fixed_forms
        rep.check("CHOICE.distinct", d.recv == RNG and b.get("replace") == ("const", False) and not extra, fwhere(f, d.node),
                  "rng.choice(..., replace=False): distinct variables within an intervention", "targets within an intervention may repeat (replace is not False) or another generator is used")
        rep.check("CHOICE.size", sz_ok, fwhere(f, d.node), "size = sizes[i] with sizes = range draw | [size] * K", "intervention size is %s" % fmt(sz)[:100] if sz else "no size")
        appended = apps[0].args[0]
        rep.check("CHOICE.recorded", strip_list(appended) == d.result, fwhere(f, apps[0].node), "the drawn targets are what is appended", "the appended value is not the draw")
        pool = strip_list(b.get("a"))
        mode = resolve(conj(d.path))
        with_repl = ("atom", REPL, True) in mode
        if not with_repl and ("atom", REPL, False) not in mode:
            rep.unk("POOL.mode", fwhere(f, d.node), "cannot tell whether this draw belongs to the with- or without-replacement mode")
            continue
        if with_repl:
            rep.check("POOL.all", pool == ("ext", "range", (Pp,), ()) or pool == Pp, fwhere(f, d.node), "drawn from range(p)", "pool is %s" % fmt(pool)[:60])
        else:
            carried = [k for k in li["init"] if k != "interventions" and li["init"][k] != ("list", ())]
            ok = False
            if len(carried) == 1:
                nm = carried[0]
                mu = ("mu", lid, nm)
                init_ok = strip_list(li["init"][nm]) in (("ext", "range", (Pp,), ()), ("ext", "numpy.arange", (Pp,), ()))
                nx = li["next"][nm]
                shrink = (nx[0] == "binop" and nx[1] == "-" and nx[2] == mu and strip_list(nx[3]) == d.result) or \
                    (nx[0] == "mut" and nx[1] == mu and nx[2] == "difference_update" and len(nx[3]) == 1 and strip_list(nx[3][0]) == d.result)
                ok = init_ok and shrink and pool == mu
            rep.check("POOL.shrinks", ok, fwhere(f, d.node), "pool starts as range(p) and loses each intervention before the next draw: no variable twice",
                      "without replacement the pool is not `range(p)` minus everything drawn so far")
    negative_zero_slices(rep, prog, [Q], rule="SLICE.minus-zero")
    ret = T(summ.ret)
    rep.check("RESULT.list", ret[0] == "phi" and ret[1] == REPL and all(x[0] == "after" for x in ret[2:4]), fwhere(f),
              "returns the list built by the selected mode", "result is %s" % fmt(ret)[:80])
    rep.require_count("GUARD", 4)
    rep.require_count("CHOICE", 5)
    rep.assume("Generator.integers(low, high) excludes high; Generator.choice(replace=False) returns distinct elements")


def strip_list(t):
    while isinstance(t, tuple) and t[0] == "ext" and t[1] in ("list", "set", "sorted", "tuple", "numpy.array") and len(t[2]) == 1:
        t = t[2][0]
    return t
