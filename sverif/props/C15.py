"""C15 - graph relations agree with their definitions on every PDAG (structural part).

Decided: (PW) the truth tables of pa / ch / neighbors / adj / na over the zero/sign domain equal their
definitions on all admissible entry pairs; (REACH) ancestors/an are built from pa only and descendants/desc
from ch only, with a transitivity witness and the stated start-node convention; transitive_closure writes
closure[i, descendants(i) - {i}] under a DAG gate; (PATHS) semi_directed_paths follows exactly `out-edge or
undirected edge`, excludes visited nodes and the current node, records a path exactly when the current node
is the target; separates has the disjointness guard and answers False iff some path avoids S;
chain_component follows `neighbors` on the undirected part transitively.
Not decided: that the explicit-stack search enumerates every simple path exactly once.
"""
from .common import *
from .. import pw as PW
from ..pw import Eval, M, E, NODE, I
from .. import signs

EXPLANATION = __doc__
from ..pred import resolve, conj  # noqa: E402
RELS = {U + "pa", U + "ch", U + "neighbors", U + "adj", U + "na"}


def reach_rule(rep, prog, name, prim, include_start):
    q = U + name
    f = need(prog, q)
    S = Sym(prog)
    summ, _ = run_function(S, f)
    calls = [c for c in S.select("call", qname=q) if c.callkind == "repo"]
    targets = {c.target for c in calls}
    others = (targets & RELS) - {U + prim}
    if not (targets & RELS) and q not in targets:
        # not a search built on pa / ch calls at all (a walk over the matrix itself, a helper with its own frontier): another algorithm for the same
        # relation, which these rules - written for "direct relatives, then theirs" - do not read
        rep.unk("REACH.shape", fwhere(f), "%s does not call any of the relation helpers (pa / ch / ...): how it finds the nodes is not read" % name)
        return
    rep.check("REACH.primitive", U + prim in targets and not others, fwhere(f),
              "%s is built from %s only" % (name, prim),
              "%s must be built from %s only, but calls %s" % (name, prim, sorted(t.split('.')[-1] for t in targets & RELS)))
    direct = [c for c in calls if c.target == U + prim and c.args and c.args[0] == ("param", "i")]
    rep.check("REACH.direct", bool(direct), fwhere(f), "the direct %s-relatives of i are taken" % prim,
              "%s(i, A) is never evaluated for the start node" % prim)
    # transitivity witness: a call to the primitive or to the function itself on a node that comes out of
    # an earlier result (element of a primitive's result, or of loop-carried state)
    wit = []
    for c in calls:
        if c.target not in (U + prim, q) or not c.args:
            continue
        a = c.args[0]
        if a == ("param", "i"):
            continue
        if c.target == q:
            # recursion on a node taken out of a primitive's result
            if any(isinstance(x, tuple) and x[0] == "call" and x[1] == U + prim for x in walk(a)):
                wit.append(c)
        else:
            # iteration: the node comes out of loop-carried state that is fed by the primitive's results
            for x in walk(a):
                if isinstance(x, tuple) and x[0] == "mu" and x[1] in S.loopinfo:
                    nx = S.loopinfo[x[1]]["next"].get(x[2])
                    if nx is not None and any(isinstance(y, tuple) and y[0] == "call" and y[1] == U + prim for y in walk(nx)):
                        wit.append(c)
    rep.check("REACH.transitive", bool(wit), fwhere(f, wit[0].node if wit else None),
              "relatives of relatives are followed (transitivity witness)", "%s is not transitive: no call on a derived node" % name)
    # start node convention
    lits = []
    roots = [T(summ.ret)] if summ.ret is not None else []
    for li in S.loopinfo.values():
        if li["func"] == q:
            roots += list(li["init"].values()) + list(li["next"].values())
    for c in S.select("call", qname=q):
        if c.callkind == "method" and c.target in (".add", ".append", ".update"):
            roots += c.args
    for r in S.select("return", qname=q):
        roots.append(r.value)
    has_start = any(isinstance(x, tuple) and x[0] in ("set", "list") and ("param", "i") in x[1] for r in roots for x in walk(r)) or \
        any(a == ("param", "i") for c in S.select("call", qname=q) if c.callkind == "method" and c.target in (".add", ".append") for a in c.args)
    rep.check("REACH.start", has_start == include_start, fwhere(f),
              "start node is %s the result, as documented" % ("part of" if include_start else "not put into"),
              "start node must %sbe included in %s" % ("" if include_start else "not ", name))
    # the matrix is passed through unchanged
    passes = all(len(c.args) > 1 and c.args[1] == ("param", "A") for c in calls if c.target in (U + prim, q))
    rep.check("REACH.matrix", passes, fwhere(f), "every step uses the caller's matrix A", "a step uses a different matrix")


def eval_relation(term, node_term, mat_param, pairs=signs.PAIRS):
    """PW table of an index-set expression of one node"""
    rows = {}
    for pair in pairs:
        env = {("param", mat_param): M({"n": (E(pair[0], "a"), E(pair[1], "b"))}), node_term: NODE("n")}
        r = Eval(env, {}).ev(term)
        if not isinstance(r, I):
            raise Inconclusive("not an index set")
        rows[pair] = r.b
    return rows


def strip_list(t):
    while isinstance(t, tuple) and t[0] == "ext" and t[1] in ("list", "set", "sorted", "tuple") and len(t[2]) == 1:
        t = t[2][0]
    return t


def paths_rules(rep, prog):
    q = U + "semi_directed_paths"
    f = need(prog, q)
    S = Sym(prog, inline=lambda g: g.public_module.name == "sempler.utils" and g.qname != q)
    run_function(S, f)
    def is_frame_list(v):
        if v[0] == "ext" and v[1] == "collections.deque" and len(v[2]) == 1 and not v[3]:
            v = v[2][0]                     # deque([frame]): popleft / appendleft work on index 0, pop / append on the end, as for a list
        return v[0] == "list" and len(v[1]) == 1 and v[1][0][0] == "tuple" and len(v[1][0][1]) == 3
    loops = [li for li in S.loopinfo.values() if li["func"] == q and li["test"] is not None and any(is_frame_list(v) for v in li["init"].values())]
    if not loops:
        raise Inconclusive("semi_directed_paths: no work-list loop over (node, visited, frontier) frames found", f.node)
    li = loops[0]
    lid = [k for k, v in S.loopinfo.items() if v is li][0]
    STACK = [k for k, v in li["init"].items() if is_frame_list(v)][0]
    outs = [k for k, v in li["init"].items() if v == ("list", ())]
    if len(outs) != 1:
        raise Inconclusive("semi_directed_paths: result list not identified", f.node)
    PATHS = outs[0]
    init = li["init"][STACK]
    if init[0] == "ext" and init[1] == "collections.deque":
        init = init[2][0]
    succ_want = lambda a, b: a != signs.Z
    ok = False
    why = "initial frame not recognised"
    try:
        if init[0] == "list" and len(init[1]) == 1 and init[1][0][0] == "tuple" and len(init[1][0][1]) == 3:
            node, visited0, tv0 = init[1][0][1]
            rows = eval_relation(strip_list(tv0), node, "A")
            ok = node == ("param", "fro") and visited0 == ("list", ()) and all(rows[p] is succ_want(*p) for p in rows)
            why = "successors of the start node are %s" % {("%s,%s" % p): v for p, v in rows.items()}
    except Inconclusive as e:
        why = e.why
    rep.check("PATHS.successors.start", ok, fwhere(f), "initial frontier = nodes j with A[fro, j] != 0 (out-edge or undirected), all 8 pairs",
              "initial frontier is not `A[fro, j] != 0`: " + why)
    # the precomputed successor table
    ok, why = False, "successor table not recognised"
    acc = None
    # the table in any of its spellings: dict((i, succ(i)) for i in range(p)), {i: succ(i) for i in range(p)}, [succ(i) for i in range(p)]
    tables = []
    for fact in S.facts:
        if fact.qname != q:
            continue
        for t_ in [getattr(fact, "value", None), getattr(fact, "term", None), getattr(fact, "result", None)] + list(getattr(fact, "args", []) or []):
            if t_ is None:
                continue
            for x in walk(t_):
                if not (isinstance(x, tuple) and x):
                    continue
                if x[0] == "ext" and x[1] == "dict" and len(x[2]) == 1 and x[2][0][0] == "comp" and x[2][0][2][0] == "tuple" and len(x[2][0][2][1]) == 2:
                    tables.append((x, x[2][0][2][1][0], x[2][0][2][1][1], x[2][0][3]))
                elif x[0] == "comp" and x[1] == "dict" and x[2][0] == "pair":
                    tables.append((x, x[2][1], x[2][2], x[3]))
                elif x[0] == "comp" and x[1] == "list" and len(x[3]) == 1 and x[3][0][1] == ("ext", "range", (("ext", "len", (("param", "A"),), ()),), ()):
                    tables.append((x, ("elem", x[3][0][1]), x[2], x[3]))
    for li_ in S.loopinfo.values():
        if li_["func"] == q:
            for t_ in list(li_["init"].values()) + list(li_["next"].values()):
                for x in walk(t_):
                    if isinstance(x, tuple) and x and x[0] == "comp" and x[1] in ("dict", "list") and not any(x == tb[0] for tb in tables):
                        if x[1] == "dict" and x[2][0] == "pair":
                            tables.append((x, x[2][1], x[2][2], x[3]))
                        elif x[1] == "list" and len(x[3]) == 1 and x[3][0][1] == ("ext", "range", (("ext", "len", (("param", "A"),), ()),), ()):
                            tables.append((x, ("elem", x[3][0][1]), x[2], x[3]))
    # ... or filled by a loop:  table = {}; for i in range(len(A)): table[i] = succ(i)
    rng_A = ("ext", "range", (("ext", "len", (("param", "A"),), ()),), ())
    for lid_, li_ in S.loopinfo.items():
        if li_["func"] != q or li_["test"] is not None or li_["iter"] != rng_A:
            continue
        sts_ = [s_ for s_ in S.select("store", qname=q) if lid_ in s_.loops]
        for nm_, init_ in li_["init"].items():
            mine = [s_ for s_ in sts_ if s_.base == ("mu", lid_, nm_)]
            if init_ in (("dict", ()), ("ext", "dict", (), ())) and len(mine) == 1 and len(sts_) == 1 and mine[0].idx == ("elem", rng_A) and mine[0].aug is None and \
                    len(mine[0].loops) == 1 and not [c for c in mine[0].path if c not in (S.select("loop", qname=q)[0].path if S.select("loop", qname=q) else ())]:
                tables.append((("after", lid_, nm_), ("elem", rng_A), mine[0].value, [(None, rng_A, ())]))
    seen_tb = []
    for tb, key_, val_, gens_ in tables:
        if tb in seen_tb:
            continue
        seen_tb.append(tb)
        try:
            rows = eval_relation(strip_list(val_), key_, "A")
            good = all(rows[p] is succ_want(*p) for p in rows) and len(gens_) == 1 and gens_[0][1] == ("ext", "range", (("ext", "len", (("param", "A"),), ()),), ()) and not gens_[0][2]
            why = "table %s over %s" % (rows, fmt(gens_[0][1]))
            if good:
                ok, acc = True, tb
        except Inconclusive as e:
            why = e.why
    rep.check("PATHS.successors.table", ok, fwhere(f), "successor table = {i: {j | A[i, j] != 0}} for every node",
              "successor table is not `A[i, j] != 0` for all nodes: " + why)
    # exclusion of visited nodes and of the current node; frame layout
    nxt = li["next"].get(STACK)
    mu = ("mu", lid, STACK)
    pushed = [x for x in walk(nxt) if isinstance(x, tuple) and x[0] == "tuple" and len(x[1]) == 3 and x != init[1][0]] if nxt else []
    ok, why = False, "no pushed frame found"
    # the top of the stack is its first element (stack = [frame] + stack) or its last one (stack.append(frame))
    tops = [("const", 0), ("const", -1)]
    for top in tops:
        cur = ("sub", ("sub", mu, top), ("const", 0))
        vis = ("sub", ("sub", mu, top), ("const", 1))
        tov = ("sub", ("sub", mu, top), ("const", 2))
        if any(x == ("sub", mu, top) for fct in S.facts if fct.qname == q for t_ in ([getattr(fct, "value", None)] + list(getattr(fct, "args", []) or []) + [c_ for c_, _ in fct.path]) if t_ is not None for x in walk(t_)):
            break
    for fr in pushed:
        node, v2, tv = fr[1]
        tvs = strip_list(tv)
        subs = []
        base = tvs
        while isinstance(base, tuple) and base[0] == "binop" and base[1] == "-":
            subs.append(base[3])
            base = base[2]
        excl_vis = any(strip_list(s_) == vis for s_ in subs)
        excl_cur = any(s_[0] in ("set", "list") and cur in s_[1] for s_ in subs)
        from_tab = acc is not None and base[0] == "sub" and base[1] == acc and base[2] == node
        popped = isinstance(node, tuple) and node[0] == "method" and node[1] == tov and node[2] == "pop"
        grow = v2 == ("binop", "+", vis, ("list", (cur,)))
        ok = excl_vis and excl_cur and from_tab and popped and grow
        why = "exclude visited=%s, exclude current=%s, successors from table=%s, next node popped from frontier=%s, visited grows by current=%s" % (
            excl_vis, excl_cur, from_tab, popped, grow)
        if ok:
            break
    rep.check("PATHS.step", ok, fwhere(f), "next frame = (popped node, visited + [current], successors - visited - {current})",
              "search step deviates: " + why)
    # a path is recorded exactly when the current node is the target
    recs = [c for c in S.select("call", qname=q) if c.callkind == "method" and c.target == ".append" and c.recv == ("mu", lid, PATHS)]
    ok = len(recs) == 1 and recs[0].args == [("binop", "+", vis, ("list", (cur,)))] and \
        (("cmp", "==", cur, ("param", "to")), True) in recs[0].path
    rep.check("PATHS.record", ok, fwhere(f, recs[0].node if recs else None),
              "visited + [current] is recorded exactly under `current == to`", "paths are not recorded exactly when the target is reached")
    rets = S.select("return", qname=q)
    rep.check("PATHS.return", len(rets) == 1 and rets[0].value == ("after", lid, PATHS) and li["init"].get(PATHS) == ("list", ()),
              fwhere(f), "returns the recorded paths, starting from []", "result is not the list of recorded paths")


def separates_rules(rep, prog):
    q = U + "separates"
    f = need(prog, q)
    S = Sym(prog)
    run_function(S, f)
    raises = [r for r in S.select("raise", qname=q) if r.exctype == "ValueError"]
    want = frozenset(("nonempty", ("binop", "&", ("param", x), ("param", y))) for x, y in (("A", "B"), ("A", "S"), ("B", "S")))

    def sym_norm(p):
        # intersections are symmetric
        out = set()
        for k, t in p:
            if k == "nonempty" and t[0] == "binop" and t[1] == "&":
                a, b = sorted([t[2], t[3]])
                out.add((k, ("binop", "&", a, b)))
            else:
                out.add((k, t))
        return frozenset(out)
    ok = False
    for r in raises:
        if len(r.path) == 1:
            p = npred(r.path[0][0], r.path[0][1])
            parts = p[1] if p[0] == "or" else frozenset([p])
            if all(len(x) == 2 for x in parts) and sym_norm(parts) == sym_norm(want):
                ok = True
    rep.check("SEP.guard", ok, fwhere(f), "ValueError iff A∩B, A∩S or B∩S is non-empty, before any search",
              "the disjointness guard is not `A&B or A&S or B&S non-empty`")
    calls = [c for c in S.select("call", qname=q) if c.target == U + "semi_directed_paths"]
    if not calls:
        # no enumeration of paths at all: the question "does some path avoid S" is answered by another search
        rep.unk("SEP.paths", fwhere(f), "separates does not enumerate semi_directed_paths(a, b, G): how it looks for a path that avoids S is not read")
        return
    ok = bool(calls) and all(c.args == [("elem", ("param", "A")), ("elem", ("param", "B")), ("param", "G")] for c in calls)
    # ... for *every* pair: two nested loops over A and B, or one over itertools.product(A, B) - not zip(A, B), which pairs them off
    for c in calls:
        iters = [S.loopinfo[l_]["iter"] for l_ in c.loops if l_ in S.loopinfo]
        PA__, PB__ = ("param", "A"), ("param", "B")
        ok = ok and (sorted(map(repr, iters)) == sorted(map(repr, [PA__, PB__])) or iters in ([("ext", "itertools.product", (PA__, PB__), ())], [("ext", "itertools.product", (PB__, PA__), ())]))
    rep.check("SEP.paths", ok, fwhere(f), "searches semi_directed_paths(a, b, G) for every a in A, b in B",
              "the path search is not over all (a in A, b in B) in G")
    rets = S.select("return", qname=q)
    f_rets = [r for r in rets if is_const(r.value, False)]
    t_rets = [r for r in rets if is_const(r.value, True)]
    # `return True` straight away when A or B is empty: no pair, no path - what the loops return after zero rounds
    def no_pairs(r_):
        empties = [npred(("cmp", "==", ("ext", "len", (("param", nm_),), ()), ("const", 0)), True) for nm_ in ("A", "B")] + [("empty", ("param", nm_)) for nm_ in ("A", "B")]
        got = resolve(conj(r_.path[-1:]))
        return bool(r_.path) and (any(e_ in got for e_ in empties) or (r_.path[-1][1] is True and npred(r_.path[-1][0], True)[0] == "or" and all(x_ in empties for x_ in npred(r_.path[-1][0], True)[1])))
    trivial_true = [r for r in t_rets if no_pairs(r)]
    t_rets = [r for r in t_rets if r not in trivial_true]
    rets = [r for r in rets if r not in trivial_true]
    shape = len(f_rets) >= 1 and len(t_rets) == 1 and len(rets) == len(f_rets) + 1
    if not shape and calls and len(rets) > len(f_rets) + 1:
        rep.unk("SEP.outcome", fwhere(f), "separates has %d return statements besides the early `False`: which of them is the verdict after all paths is not read" % (len(rets) - len(f_rets)))
        return
    if not shape or not calls:
        rep.bad_form("SEP.outcome", fwhere(f), "outcome is not `False as soon as some path avoids S, True after all paths were inspected`")
        return
    path_elem = ("elem", calls[0].result)
    PS_ = ("param", "S")
    verdict = "ok"
    for r in f_rets:
        last = r.path[-1] if r.path else None
        p = npred(last[0], last[1]) if last else None
        inter = [("binop", "&", ("ext", "set", (path_elem,), ()), PS_), ("binop", "&", PS_, ("ext", "set", (path_elem,), ()))]
        good = p in [("empty", t) for t in inter] or p in [("atom", ("method", ("ext", "set", (path_elem,), ()), "isdisjoint", (PS_,), ()), True),
                                                             ("atom", ("method", PS_, "isdisjoint", (path_elem,), ()), True)]
        if not good and last is not None:
            # any other spelling of `the path and S share no node`, decided in every Venn world of the two sets
            from ..setpred import SetAlg
            from ..sym import subst
            P_, S_ = ("PATHSET",), ("SSET",)
            t_ = subst(last[0], {("ext", "set", (path_elem,), ()): P_})
            t_ = subst(subst(t_, {path_elem: P_}), {PS_: S_})
            alg = SetAlg([P_, S_])
            try:
                eq, _ = alg.equal(lambda w: alg.truth(t_, w) == last[1], lambda w: not alg.nonempty(("binop", "&", P_, S_), w))
                if eq:
                    good = True
                else:
                    verdict = "bad"
            except Inconclusive:
                pass
        if not good and last is not None:
            # `not any(s in path for s in S)` / `all(s not in path for s in S)`
            c, pol = last
            neg = False
            while c[0] == "unop" and c[1] == "not":
                c, neg = c[2], not neg
            if c[0] == "ext" and c[1] in ("any", "all") and len(c[2]) == 1 and c[2][0][0] == "comp" and not c[2][0][3][0][2]:
                comp = c[2][0]
                it = comp[3][0][1]
                e = ("elem", it)
                member = {PS_: ("cmp", "in", e, path_elem), path_elem: ("cmp", "in", e, PS_)}.get(it)
                notmember = {PS_: ("cmp", "not in", e, path_elem), path_elem: ("cmp", "not in", e, PS_)}.get(it)
                truth = pol != neg
                if c[1] == "any" and comp[2] == member and truth is False:
                    good = True
                if c[1] == "all" and comp[2] == notmember and truth is True:
                    good = True
        if not good and p in [("nonempty", t) for t in inter]:
            verdict = "bad"           # the exact negation of the definition
        elif not good:
            dep = last is not None and mentions(last[0], PS_) and mentions(last[0], path_elem)
            verdict = "unknown" if dep and verdict != "bad" else "bad"
    if any(c for c, pol in t_rets[0].path if mentions(c, path_elem)):
        verdict = "bad"
    if verdict == "ok":
        rep.ok("SEP.outcome", fwhere(f), "False exactly when some path has no node in S, True after all paths were inspected")
    elif verdict == "bad":
        rep.bad("SEP.outcome", fwhere(f), "the `path avoids S` test does not depend on both the path and S, or True is returned before all paths were inspected")
    else:
        rep.unk("SEP.outcome", fwhere(f), "the `path avoids S` test is written in a form the rule does not recognise: %s" % fmt(f_rets[0].path[-1][0])[:120])


def truthy_node_rule(rep, prog):
    """any(...) / all(...) over the *labels* of nodes (elements of a node set or of a path) instead of over
    booleans: node 0 is falsy, so the answer depends on how the nodes are numbered."""
    NODESETS = {"S", "A", "B", "I", "path", "visited", "to_visit"}
    n = 0
    for f in sorted(prog.funcs.values(), key=lambda f: f.qname):
        if f.public_module.name != "sempler.utils":
            continue
        for node in ast.walk(f.node):
            if isinstance(node, ast.Call) and isinstance(node.func, ast.Name) and node.func.id in ("any", "all") and len(node.args) == 1 and \
                    isinstance(node.args[0], (ast.GeneratorExp, ast.ListComp, ast.SetComp)):
                comp = node.args[0]
                n += 1
                tgt = comp.generators[0].target
                if isinstance(comp.elt, ast.Name) and isinstance(tgt, ast.Name) and comp.elt.id == tgt.id:
                    it = comp.generators[0].iter
                    src = it.id if isinstance(it, ast.Name) else None
                    holds_nodes = src in NODESETS or (isinstance(it, ast.Call) and isinstance(it.func, ast.Name) and it.func.id in ("pa", "ch", "neighbors", "adj", "na"))
                    if holds_nodes:
                        rep.bad("TRUTHY.node-label", fwhere(f, node), "%s() over node labels `%s`: node 0 is falsy, so the result depends on the numbering of the nodes" % (node.func.id, norm(comp)[:60]))
    rep.ok("TRUTHY.node-label", {"file": "sempler/utils.py", "line": 0, "function": "sempler.utils.*", "construct": "any()/all() over comprehensions"},
           "%d any()/all() calls over comprehensions inspected; none takes the truth value of a node label" % n) if not rep.count("TRUTHY.node-label", "VIOLATION") else None


def chain_component_rules(rep, prog):
    q = U + "chain_component"
    f = need(prog, q)
    S = Sym(prog)
    summ, _ = run_function(S, f)
    calls = [c for c in S.select("call", qname=q) if c.callkind == "repo"]
    rel = [c for c in calls if c.target in RELS]
    und = ("call", U + "only_undirected", (("param", "G"),), (("P", ("param", "G")),))
    if not rel:
        rep.unk("CC.shape", fwhere(f), "chain_component does not call any of the relation helpers (neighbors / ...): how it finds the component is not read")
        return
    ok = bool(rel) and all(c.target == U + "neighbors" for c in rel)
    rep.check("CC.relation", ok, fwhere(f), "connectivity follows `neighbors` only", "chain_component follows %s" % sorted({c.target for c in rel}))
    on_und = all(len(c.args) > 1 and (c.args[1] == und or c.args[1] == ("param", "G")) for c in rel)
    rep.check("CC.matrix", on_und, fwhere(f), "neighbours are taken in (the undirected part of) G", "neighbours are taken in another matrix")
    wit = [c for c in rel if any(isinstance(x, tuple) and x[0] in ("mu", "after") for x in walk(c.args[0]))]
    rep.check("CC.transitive", bool(wit), fwhere(f), "neighbours of reached nodes are followed (loop-carried frontier)",
              "no transitivity: neighbours only of the start node")
    start = any(isinstance(x, tuple) and x[0] in ("set", "list") and ("param", "i") in x[1]
                for li in S.loopinfo.values() if li["func"] == q for v in li["init"].values() for x in walk(v))
    rep.check("CC.start", start, fwhere(f), "the search starts from {i}", "the search does not start from the node i")


def eval_rounds(t, p, A=("param", "A")):
    """value of an integer expression in p = len(A) (the number of squarings): the operations such an expression is written with"""
    import math
    k = t[0]
    if k == "const":
        return t[1]
    if t == ("ext", "len", (A,), ()) or (k == "sub" and t[1] == ("attr", A, "shape") and is_const(t[2]) and t[2][1] in (0, 1)):
        return p
    if k == "binop":
        a, b = eval_rounds(t[2], p, A), eval_rounds(t[3], p, A)
        return {"+": lambda: a + b, "-": lambda: a - b, "*": lambda: a * b, "//": lambda: a // b, "/": lambda: a / b, "**": lambda: a ** b}[t[1]]()
    if k == "ext" and len(t[2]) >= 1 and not [kv for kv in t[3] if kv[0] != "$draw"]:
        xs = [eval_rounds(x, p, A) for x in t[2]]
        fns = {"int": lambda x: int(x), "numpy.ceil": math.ceil, "math.ceil": math.ceil, "numpy.floor": math.floor, "math.floor": math.floor, "numpy.log2": math.log2, "math.log2": math.log2,
               "max": max, "min": min, "round": round, "abs": abs, "numpy.sqrt": math.sqrt, "math.sqrt": math.sqrt}
        if t[1] in fns:
            return fns[t[1]](*xs)
    if k == "method" and t[2] == "bit_length" and not t[3]:
        return int(eval_rounds(t[1], p, A)).bit_length()
    if k == "phi":
        c = t[1]
        if c[0] == "cmp" and len(c) == 4:
            a, b = eval_rounds(c[2], p, A), eval_rounds(c[3], p, A)
            truth = {">": a > b, "<": a < b, ">=": a >= b, "<=": a <= b, "==": a == b, "!=": a != b}[c[1]]
            return eval_rounds(t[2] if truth else t[3], p, A)
    raise Inconclusive("number of rounds: %s is not evaluated" % fmt(t)[:60])


def closure_by_squaring(rep, S, f, q):
    """transitive closure by repeated squaring of the boolean pattern: reach = (A != 0); R times reach |= reach @ reach; closure[reach] = 1.
    After R rounds reach holds the paths of at most 2^R edges, and a path in a DAG on p nodes has at most p - 1: R(p) is evaluated
    exhaustively for p = 1 .. 1025 (written independently, and one round short, by three seed agents: floor(log2 p)). -> True when this is the form"""
    A = ("param", "A")
    loops = [(k, v) for k, v in S.loopinfo.items() if v["func"] == q and v["test"] is None]
    if len(loops) != 1:
        return False
    lid, li = loops[0]
    it = li["iter"]
    if not (it[0] == "ext" and it[1] == "range" and len(it[2]) == 1 and not it[3]) or len(li["init"]) != 1:
        return False
    (nm, init), = li["init"].items()
    mu = ("mu", lid, nm)
    sq = ("binop", "@", mu, mu)
    nx = li["next"][nm]
    pat = [("cmp", "!=", A, ("const", 0)), ("method", ("cmp", "!=", A, ("const", 0)), "astype", (("extref", "bool"),), ()), ("method", A, "astype", (("extref", "bool"),), ())]
    step_ok = nx in (("binop", "|", mu, sq), ("binop", "|", sq, mu), ("ext", "numpy.logical_or", (mu, sq), ()), ("ext", "numpy.logical_or", (sq, mu), ()))
    if init not in pat or not step_ok:
        return False
    stores = S.select("store", qname=q)
    after = ("after", lid, nm)
    fill = len(stores) == 1 and stores[0].idx == after and is_const(stores[0].value, 1) and stores[0].aug is None and \
        stores[0].base == ("ext", "numpy.zeros_like", (A,), ())
    rep.decide("CLOSURE.store", fill, fwhere(f, stores[0].node if stores else None), "closure = zeros_like(A); closure[reach] = 1 with reach the squared pattern",
               "the reachability mask is not what is written into the zero matrix")
    R = it[2][0]
    try:
        short = None
        for p_ in range(1, 1026):
            try:
                r_ = eval_rounds(R, p_)
            except (ValueError, OverflowError, ZeroDivisionError) as e:
                short = (p_, "the number of rounds cannot be computed (%s)" % type(e).__name__)
                break
            if not isinstance(r_, int) or isinstance(r_, bool):
                short = (p_, "the number of rounds is %r, not an integer" % (r_,))
                break
            if p_ >= 2 and 2 ** max(r_, 0) < p_ - 1:
                short = (p_, "%d squaring(s) cover paths of at most %d edges, a chain on %d nodes has a path of %d" % (max(r_, 0), 2 ** max(r_, 0), p_, p_ - 1))
                break
        if short is None:
            rep.ok("CLOSURE.rounds", fwhere(f, li["node"]), "%s squarings cover paths of p - 1 edges for every p = 1 .. 1025" % fmt(R)[:60])
        else:
            rep.bad("CLOSURE.rounds", fwhere(f, li["node"]), "with p = %d nodes: %s (rounds = %s)" % (short[0], short[1], fmt(R)[:60]))
    except Inconclusive as e:
        rep.unk("CLOSURE.rounds", fwhere(f, li["node"]), e.why)
    return True


def closure_rules(rep, prog):
    q = U + "transitive_closure"
    f = need(prog, q)
    S = dag_gate(rep, prog, q, "A", rule="GATE.closure")
    if closure_by_squaring(rep, S, f, q):
        return
    stores = S.select("store", qname=q)
    loops = [(k, v) for k, v in S.loopinfo.items() if v["func"] == q]
    ok = False
    why = "no store found"
    if len(stores) == 1 and loops:
        st = stores[0]
        lid, li = loops[0]
        i = ("elem", ("ext", "range", (("ext", "len", (("param", "A"),), ()),), ()))
        d = ("call", U + "descendants", (i, ("param", "A")), (("A", ("param", "A")), ("i", i)))
        want_idx = ("tuple", (i, ("ext", "list", (("binop", "-", d, ("set", (i,))),), ())))
        idx = st.idx
        if idx[0] == "tuple" and len(idx[1]) == 2:
            col = strip_list(idx[1][1])
            ok = idx[1][0] == i and col == ("binop", "-", d, ("set", (i,))) and is_const(st.value, 1) and st.aug is None \
                and li["init"].get(norm(st.basenode)) == ("ext", "numpy.zeros_like", (("param", "A"),), ())
            why = "store %s[%s] = %s over base %s" % (fmt(st.base), fmt(idx), fmt(st.value), fmt(li["init"].get(norm(st.basenode))))
    if not ok and (why == "no store found" or any(v["iter"] is None for k, v in loops)):
        rep.unk("CLOSURE.store", fwhere(f), "the closure is not filled by one store per node inside a loop over the nodes: this form is not read")
    else:
        rep.check("CLOSURE.store", ok, fwhere(f), "closure[i, descendants(i, A) - {i}] = 1 for every i over a zero matrix",
                  "transitive closure is not written as closure[i, descendants(i) - {i}] = 1: " + why)


def run(prog, rep, tier):
    PW.rule_node_relations(prog, rep)
    PW.rule_na(prog, rep)
    rep.require_count("PW.relation", 5)
    for name, prim, inc in (("ancestors", "pa", False), ("an", "pa", False), ("descendants", "ch", True), ("desc", "ch", True)):
        reach_rule(rep, prog, name, prim, inc)
    rep.require_count("REACH", 20)
    closure_rules(rep, prog)
    paths_rules(rep, prog)
    separates_rules(rep, prog)
    node_label_truthiness(rep, prog, [U + n_ for n_ in ("pa", "ch", "neighbors", "adj", "na", "ancestors", "descendants", "desc", "semi_directed_paths", "separates",
                                                       "chain_component", "transitive_closure", "is_supergraph", "is_subgraph")], sets_as_params=("S",))
    isin_over_sets(rep, prog, [U + n_ for n_ in ("pa", "ch", "neighbors", "adj", "na", "ancestors", "descendants", "desc", "semi_directed_paths", "separates",
                                                 "chain_component", "transitive_closure")])
    chain_component_rules(rep, prog)
    # every query leaves the graph (and the node sets) it is given as they were: Kahn's algorithm behind transitive_closure, a
    # visited-set kept in the caller's S
    from .common import inputs_intact
    inputs_intact(rep, prog, [U + n_ for n_ in ("transitive_closure", "separates", "semi_directed_paths", "chain_component", "ancestors", "descendants")])
    # zero-pattern dependence of the whole family (the DAG gate's own value sensitivity belongs to C03)
    entries = [(U + n, {"na": "A", "separates": "G", "chain_component": "G"}.get(n, "A")) for n in
               ("pa", "ch", "neighbors", "adj", "na", "ancestors", "descendants", "an", "desc", "semi_directed_paths",
                "separates", "chain_component", "transitive_closure")]
    pattern_entries(prog, rep, entries, not_charged=(U + "topological_ordering", U + "is_dag"))
    rep.require_count("PAT.entry", 13)
    rep.exhaustive = True      # the finite tables (pairs / valuations) are enumerated completely
    rep.tables["admissible_pairs"] = ["%s,%s" % p for p in signs.PAIRS]
    rep.assume("input domain of the tables: binary PDAGs and DAG weight matrices of any sign (8 admissible entry pairs)")
