"""MNF - matrix-algebra normal form of SYM terms (DESIGN.md 3.10).

nf(term) -> {monomial: Fraction}, monomial = tuple of factors (non-commutative product)
factor   = ('A', key, transposed)        opaque matrix/vector atom (key = the SYM term or a label)
         | ('B', base, rows, cols, t)    block base[rows, cols] of a matrix atom  (rows/cols = index key or 'ALL')
         | ('V', base, idx)              1-D selection base[idx]
         | ('I',)                        identity
         | ('D', key)                    diag(v), symmetric
         | ('inv', key(nf))              inverse of a normal form
Rewrites: products distributed over sums, transposes pushed to atoms ((AB)^T = B^T A^T,
(A^-1)^T = (A^T)^-1, C[X,Y]^T = C[Y,X] for symmetric bases, D^T = D, I^T = I, 1-D .T = identity),
solve(A, b) = A^-1 b, M[r,:][:,c] = M[:,c][r,:] = M[r, c], identity dropped from products,
like terms collected.  Equality of normal forms means equality of the formulas over the reals;
floating-point accuracy is not decided.
"""
import ast
from fractions import Fraction

from .loader import Inconclusive
from .sym import is_const, fmt, T

FULL = ("slice", ("const", None), ("const", None), ("const", None))
ORDER_KEEPING = {"numpy.atleast_1d", "numpy.asarray", "numpy.array", "list", "tuple", "numpy.atleast_2d", "numpy.copy"}


def const(c):
    return {(): Fraction(c)} if c != 0 else {}


def add(x, y, s=1):
    r = dict(x)
    for k, v in y.items():
        r[k] = r.get(k, 0) + s * v
        if r[k] == 0:
            del r[k]
    return r


def key(nf):
    return tuple(sorted(((k, v) for k, v in nf.items()), key=repr))


def simplify(fs):
    out = []
    for f in fs:
        if f == ("I",):
            continue
        # A^-1 A = I for a single-monomial normal form made of exactly that factor
        if out and f[0] == "inv" and len(f[1]) == 1 and f[1][0][1] == 1 and f[1][0][0] == (out[-1],):
            out.pop()
            continue
        if out and out[-1][0] == "inv" and len(out[-1][1]) == 1 and out[-1][1][0][1] == 1 and out[-1][1][0][0] == (f,):
            out.pop()
            continue
        out.append(f)
    return tuple(out)


def mul(x, y):
    r = {}
    for k1, v1 in x.items():
        for k2, v2 in y.items():
            k = simplify(k1 + k2)
            r[k] = r.get(k, 0) + v1 * v2
            if r[k] == 0:
                del r[k]
    return r


class MNF:
    def __init__(self, symmetric=(), vectors=(), index_norm=None, scalars=(), atoms=()):
        self.atoms = set(atoms)                # terms the caller declares to be free symbols (a working copy whose history another rule reads)
        self.symmetric = set(symmetric)        # base terms known to be symmetric matrices
        self.vectors = set(vectors)            # terms known to be 1-D
        self.scalars = set(scalars)            # index terms known to be single integers
        self.index_norm = index_norm or (lambda t: t)

    # ------------------------------------------------------------------ transposition
    def tr_factor(self, f):
        k = f[0]
        if k in ("I", "D", "V", "P"):
            return f
        if k == "O":
            raise Inconclusive("MNF: transpose of an uninterpreted operation")
        if k == "A":
            if f[1] in self.vectors or f[1] in self.symmetric:
                return f
            return ("A", f[1], not f[2])
        if k == "B":
            _, base, r, c, t = f
            if r != "ALL" and c != "ALL" and (self.is_scalar_index(r) or self.is_scalar_index(c)):
                return f                     # 1-D row/column selection
            if base in self.symmetric:
                return ("B", base, c, r, t)
            return ("B", base, r, c, not t)
        if k == "inv":
            return ("inv", key(self.transpose(dict(f[1]))))
        raise Inconclusive("MNF: cannot transpose %r" % (f,))

    def transpose(self, nf):
        return {tuple(self.tr_factor(f) for f in reversed(m)): c for m, c in nf.items()}

    def is_scalar_index(self, idx):
        return isinstance(idx, tuple) and idx and idx[0] == "scalar"

    # ------------------------------------------------------------------ terms
    def idx_key(self, t):
        """canonical key of an index expression; order-keeping wrappers are dropped"""
        t = self.index_norm(t)
        while isinstance(t, tuple) and t[0] == "ext" and t[1] in ORDER_KEEPING and len(t[2]) == 1:
            t = self.index_norm(t[2][0])
        if t == FULL:
            return "ALL"
        return t

    def atom(self, t):
        return {(("A", t, False),): Fraction(1)}

    def is_vector_nf(self, x):
        """a single declared 1-D term (coefficient 1)"""
        if len(x) != 1:
            return False
        (m, c), = x.items()
        return c == 1 and len(m) == 1 and m[0][0] == "A" and m[0][1] in self.vectors

    def is_matrix_nf(self, x):
        """every monomial starts and ends with a factor known to be 2-D (inverse, identity, diagonal, undeclared atom)"""
        def two_d(f):
            return f[0] in ("inv", "I", "D") or (f[0] == "A" and f[1] not in self.vectors and f[1] not in self.scalars)
        return bool(x) and all(m and two_d(m[0]) and two_d(m[-1]) for m in x)

    def opaque(self, t):
        """result of an operation the algebra does not interpret: an atom whose relation to others is unknown"""
        return {(("O", t),): Fraction(1)}

    def block(self, base, r, c):
        rk, ck = self.idx_key(r), self.idx_key(c)
        if rk == "ALL" and ck == "ALL":
            return self.nf(base)
        if base in self.symmetric and self.is_scalar_index(ck) and not self.is_scalar_index(rk):
            rk, ck = ck, rk              # 1-D selection of a symmetric matrix: C[S, y] = C[y, S]
        return {(("B", base, rk, ck, False),): Fraction(1)}

    def nf(self, t):
        t = T(t)
        if not isinstance(t, tuple):
            raise Inconclusive("MNF: %r" % (t,))
        if t in self.vectors or t in self.symmetric or t in self.atoms:
            return self.atom(t)
        k = t[0]
        if k == "const":
            if isinstance(t[1], (int, float)) and not isinstance(t[1], bool):
                return const(Fraction(t[1]).limit_denominator(10**12))
            raise Inconclusive("MNF: constant %r" % (t[1],))
        if k == "binop":
            op = t[1]
            if op in ("+", "-"):
                return add(self.nf(t[2]), self.nf(t[3]), 1 if op == "+" else -1)
            if op == "@":
                return mul(self.nf(t[2]), self.nf(t[3]))
            if op == "*":
                l, r = self.nf(t[2]), self.nf(t[3])
                if set(l) <= {()} or set(r) <= {()}:
                    return mul(l, r)
                # elementwise product of a matrix with a known 1-D vector broadcasts over columns:  M * v = v * M = M diag(v)
                lv, rv = self.is_vector_nf(l), self.is_vector_nf(r)
                if rv and not lv and self.is_matrix_nf(l):
                    return mul(l, {(("D", key(r)),): Fraction(1)})
                if lv and not rv and self.is_matrix_nf(r):
                    return mul(r, {(("D", key(l)),): Fraction(1)})
                return self.opaque(t)
            if op == "/":
                r = self.nf(t[3])
                if set(r) == {()}:
                    return {m: c / r[()] for m, c in self.nf(t[2]).items()}
            if op == "**" and is_const(t[3]) and isinstance(t[3][1], (int, float)) and not isinstance(t[3][1], bool):
                if t[3][1] == 1:
                    return self.nf(t[2])
                return {(("P", key(self.nf(t[2])), repr(t[3][1])),): Fraction(1)}
            return self.opaque(t)
        if k == "unop" and t[1] == "neg":
            return {m: -c for m, c in self.nf(t[2]).items()}
        if k == "attr" and t[2] == "T":
            return self.transpose(self.nf(t[1]))
        if k == "ext":
            d, a, kw = t[1], t[2], dict(t[3])
            if d in ("numpy.linalg.inv",) and len(a) == 1:
                return {(("inv", key(self.nf(a[0]))),): Fraction(1)}
            if d == "numpy.linalg.pinv" and len(a) == 1 and not (set(kw) - {"hermitian", "$draw"}):
                # over the reals the pseudo-inverse of an invertible matrix is its inverse (an explicit cut-off is judged separately)
                return {(("inv", key(self.nf(a[0]))),): Fraction(1)}
            if d == "numpy.linalg.solve" and len(a) == 2:
                return mul({(("inv", key(self.nf(a[0]))),): Fraction(1)}, self.nf(a[1]))
            if d in ("numpy.eye", "numpy.identity"):
                return {(("I",),): Fraction(1)}
            if d == "numpy.diag" and len(a) == 1:
                return {(("D", key(self.nf(a[0]))),): Fraction(1)}
            if d == "numpy.transpose" and len(a) == 1:
                return self.transpose(self.nf(a[0]))
            if d in ("numpy.dot", "numpy.matmul") and len(a) == 2:
                return mul(self.nf(a[0]), self.nf(a[1]))
            if d in ORDER_KEEPING and len(a) == 1:
                dt = {k: v_ for k, v_ in t[3] if k != "$draw"}.get("dtype")
                if dt is not None and dt not in (("extref", "float"), ("extref", "numpy.float64"), ("const", "float")):
                    return self.opaque(t)          # a cast that may change the values
                return self.nf(a[0])
            if d == "numpy.sqrt" and len(a) == 1:
                return {(("P", key(self.nf(a[0])), "0.5"),): Fraction(1)}
            return self.opaque(t)
        if k == "method":
            if t[2] == "dot" and len(t[3]) == 1:
                return mul(self.nf(t[1]), self.nf(t[3][0]))
            if t[2] in ("copy",) and not t[3]:
                return self.nf(t[1])
            if t[2] == "transpose" and not t[3]:
                return self.transpose(self.nf(t[1]))
            if t[2] == "astype" and t[3] and t[3][0] in (("extref", "float"), ("extref", "numpy.float64")):
                return self.nf(t[1])
            return self.opaque(t)
        if k == "sub":
            return self.subscript(t)
        if k == "default":
            return self.nf(t[2])
        if k in ("phi", "after", "mu", "join", "comp", "store", "mut", "bool", "cmp", "unbound", "shuffled"):
            # a value that depends on a branch, a loop or an update is not a free symbol: two normal forms that differ in it are not "different"
            return self.opaque(t)
        return self.atom(t)

    def subscript(self, t):
        base, idx = t[1], t[2]
        # M[np.ix_(r, c)] is the block M[r, :][:, c]
        if isinstance(idx, tuple) and idx and idx[0] == "ext" and idx[1] == "numpy.ix_" and len(idx[2]) == 2 and not idx[3]:
            return self.block(base, idx[2][0], idx[2][1])
        # M[r][:, c]: a missing trailing index is a full slice (the base must be at least 2-D for [:, c] to apply, so M[r] selects rows)
        if base[0] == "sub" and idx[0] == "tuple" and len(idx[1]) == 2 and idx[1][0] == FULL and base[2][0] not in ("tuple", "slice") and not self.scalar_like(base[2]):
            return self.block(base[1], base[2], idx[1][1])
        # M[:, c][r]: rows r of the column selection
        if base[0] == "sub" and base[2][0] == "tuple" and len(base[2][1]) == 2 and base[2][1][0] == FULL and idx[0] not in ("tuple", "slice") and not self.scalar_like(idx) \
                and not self.scalar_like(base[2][1][1]):
            return self.block(base[1], idx, base[2][1][1])
        # M[r, :][:, c]  /  M[:, c][r, :]
        if base[0] == "sub" and idx[0] == "tuple" and len(idx[1]) == 2 and base[2][0] == "tuple" and len(base[2][1]) == 2:
            (r1, c1), (r2, c2) = base[2][1], idx[1]
            if c1 == FULL and r2 == FULL:
                return self.block(base[1], r1, c2)
            if r1 == FULL and c2 == FULL:
                return self.block(base[1], r2, c1)
        if idx[0] == "tuple" and len(idx[1]) == 2:
            r, c = idx[1]
            rk = ("scalar", r) if self.scalar_like(r) else r
            ck = ("scalar", c) if self.scalar_like(c) else c
            return self.block(base, rk, ck)
        if idx[0] != "tuple" and idx[0] != "slice" and base in self.symmetric:
            return self.subscript(("sub", base, ("tuple", (idx, FULL))))           # for a known matrix M[y] is M[y, :]
        if idx[0] != "tuple":
            ik = ("scalar", idx) if self.scalar_like(idx) else self.idx_key(idx)
            return {(("V", base, ik),): Fraction(1)}
        return self.atom(t)

    def scalar_like(self, t):
        return t in self.scalars


def show(nf):
    def ff(f):
        k = f[0]
        if k == "A":
            return fmt(f[1])[:40] + ("ᵀ" if f[2] else "")
        if k == "B":
            return "%s[%s,%s]%s" % (fmt(f[1])[:20], _ik(f[2]), _ik(f[3]), "ᵀ" if f[4] else "")
        if k == "V":
            return "%s[%s]" % (fmt(f[1])[:20], _ik(f[2]))
        if k == "I":
            return "I"
        if k == "D":
            return "diag(%s)" % show(dict(f[1]))
        if k == "inv":
            return "inv(%s)" % show(dict(f[1]))
        if k == "P":
            return "(%s)**%s" % (show(dict(f[1])), f[2])
        if k == "O":
            return "?" + fmt(f[1])[:40]
        return repr(f)
    parts = []
    for m, c in sorted(nf.items(), key=repr):
        s = " ".join(ff(f) for f in m) or "1"
        parts.append(("%s·" % c if c != 1 else "") + s)
    return " + ".join(parts) or "0"


def _ik(i):
    if i == "ALL":
        return ":"
    if isinstance(i, tuple) and i and i[0] == "scalar":
        return fmt(i[1])
    return fmt(i)[:16]


def inverse_free(nf):
    return not any(f[0] == "inv" for m in nf for f in m)


def has_opaque(nf):
    def rec(f):
        if f[0] == "O":
            return True
        if f[0] in ("inv", "D", "P"):
            return any(rec(g) for m, _ in f[1] for g in m)
        return False
    return any(rec(f) for m in nf for f in m)


def inv_atoms(nf):
    return {f for m in nf for f in m if f[0] == "inv"}


def compare(a, b):
    """-> 'equal' | 'different' (the comparison is complete) | 'undecided'"""
    if key(a) == key(b):
        return "equal"
    if has_opaque(a) or has_opaque(b):
        return "undecided"
    if inverse_free(a) and inverse_free(b):
        return "different"
    # same inverse atoms: they act as free symbols and the polynomials around them are comparable
    if inv_atoms(a) == inv_atoms(b):
        return "different"
    return "undecided"


# ---------------------------------------------------------------------------- reference builders
def rB(base, r, c):
    return {(("B", base, r, c, False),): Fraction(1)}


def rV(base, i):
    return {(("V", base, i),): Fraction(1)}


def rA(t):
    return {(("A", t, False),): Fraction(1)}


def rI():
    return {(("I",),): Fraction(1)}


def rD(nf):
    return {(("D", key(nf)),): Fraction(1)}


def rinv(nf):
    return {(("inv", key(nf)),): Fraction(1)}


def rscale(nf, c):
    return {m: v * c for m, v in nf.items()}


def strip_wrappers(t, any_dtype=True):
    """drop order-keeping wrappers everywhere in a term (a dtype= keyword does not change order or length)"""
    if not isinstance(t, tuple):
        return t
    if t and t[0] == "ext" and t[1] in ORDER_KEEPING and len(t[2]) == 1:
        kws = {k for k, _ in t[3] if k != "$draw"}
        if not kws or (any_dtype and kws <= {"dtype", "copy"}):
            return strip_wrappers(t[2][0], any_dtype)
    return tuple(strip_wrappers(c, any_dtype) if isinstance(c, tuple) else c for c in t)
