"""SYM - value numbering by symbolic terms (the substrate of GUARD, MNF, slots, IDX, REL, RANGE, CASES).

Every expression is expanded through its reaching definitions into a *term* over the
function's parameters, `self` attributes and uninterpreted calls; branches produce phi
terms that carry their condition, loops produce mu symbols (the loop-carried state).
Nothing is executed: terms are compared after normalisation by the rules.

Terms are nested tuples (hashable):
  ('const', v) ('param', name) ('self', attr) ('unbound', name)
  ('tuple'|'list'|'set', items) ('dict', ((k, v), ...))
  ('attr', x, name) ('sub', x, idx) ('slice', lo, up, step)
  ('unop', op, x) ('binop', op, l, r) ('cmp', op, l, r) ('bool', 'and'|'or', items)
  ('phi', cond, a, b) ('join', items)
  ('ext', dotted, args, kwargs) ('call', qname, args, kwargs) ('method', recv, attr, args, kwargs)
  ('apply', f, args, kwargs) ('lambda', id) ('closure', id) ('new', cls, args)
  ('elem', x) ('idx', x) ('key', x) ('val', x)                 element / enumerate index / dict key / dict value
  ('mu', loop, name) ('after', loop, name)                     loop-carried state / value after the loop
  ('store', base, idx, val, augop) ('mut', recv, method, args) updated containers
  ('comp', kind, elt, gens) ('exc', handler)
"""
import ast

from .core import GenV, NamedTupleV
from .core import (Interp, TupleV, Closure, FuncRef, ClassRef, ExtRef, ObjV, BoundMethod, SuperV, SliceV, Ctx, PartialV, StaticV, KwV, ARGS, is_static)
GENERIC_VALUES = (TupleV, Closure, FuncRef, ClassRef, ExtRef, ObjV, BoundMethod, SuperV, SliceV, PartialV, GenV)
from .loader import Inconclusive, norm, dotted_of

NONE = ("const", None)
VALUE_CONVERSIONS = {"numpy.array", "numpy.asarray", "numpy.asanyarray", "numpy.atleast_1d", "numpy.atleast_2d", "numpy.copy", "copy.deepcopy", "copy.copy"}
VALUE_IDENTITY_EXT = {"numpy.asarray", "numpy.asanyarray"}
CLOSURES = {}      # (line, col) -> Closure, so that rules can look into lambda bodies
OPS = {ast.Add: "+", ast.Sub: "-", ast.Mult: "*", ast.Div: "/", ast.FloorDiv: "//", ast.Mod: "%", ast.Pow: "**",
       ast.MatMult: "@", ast.BitAnd: "&", ast.BitOr: "|", ast.BitXor: "^", ast.LShift: "<<", ast.RShift: ">>"}
CMPS = {ast.Eq: "==", ast.NotEq: "!=", ast.Lt: "<", ast.LtE: "<=", ast.Gt: ">", ast.GtE: ">=", ast.Is: "is",
        ast.IsNot: "is not", ast.In: "in", ast.NotIn: "not in"}
UNOPS = {ast.Not: "not", ast.USub: "neg", ast.UAdd: "pos", ast.Invert: "~"}
IMPURE_EXT = {"time.time", "time.time_ns", "time.perf_counter", "random.random", "random.choice", "random.randint", "random.uniform",
              "random.shuffle", "random.sample", "os.urandom", "uuid.uuid4", "next", "input"}
IMPURE_METHODS = {"uniform", "choice", "permutation", "integers", "normal", "random", "binomial", "standard_normal",
                  "multivariate_normal", "laplace", "exponential", "permuted", "rand", "randn", "randint", "random_sample",
                  "pop", "popitem"}
MUTATORS = {"append", "extend", "insert", "pop", "remove", "clear", "sort", "reverse", "add", "discard", "update",
            "fill", "setdefault", "popitem", "shuffle", "__delitem__", "difference_update", "intersection_update", "symmetric_difference_update",
            "popleft", "appendleft", "extendleft", "rotate"}


ARITH_UFUNCS = {"numpy.multiply": ast.Mult, "numpy.add": ast.Add, "numpy.subtract": ast.Sub, "numpy.matmul": ast.MatMult, "numpy.divide": ast.Div, "numpy.true_divide": ast.Div,
                "pow": ast.Pow, "numpy.power": ast.Pow, "operator.add": ast.Add, "operator.mul": ast.Mult, "operator.sub": ast.Sub, "operator.matmul": ast.MatMult, "operator.pow": ast.Pow}


def private_class(func):
    """a method (dunder methods included) of a class whose name starts with an underscore: internal working state, expanded like a private helper"""
    return bool(getattr(func, "cls", None)) and func.cls.startswith("_") and not func.cls.startswith("__")


def is_const(t, *vals):
    return isinstance(t, tuple) and len(t) == 2 and t[0] == "const" and (not vals or any(t[1] == v and type(t[1]) == type(v) for v in vals))


OPAQUE_GENERATORS = set()      # generator functions whose generator object ended up inside a term (consumed by something that is not read as a loop)


def T(v):
    """convert generic interpreter values to terms"""
    if isinstance(v, TupleV):
        return ("tuple", tuple(T(x) for x in v.items))
    if isinstance(v, SliceV):
        return ("slice", T(v.lower) if v.lower is not None else NONE, T(v.upper) if v.upper is not None else NONE,
                T(v.step) if v.step is not None else NONE)
    if isinstance(v, Closure):
        CLOSURES[(v.node.lineno, getattr(v.node, "col_offset", 0))] = v
        return ("closure", v.node.lineno, getattr(v.node, "col_offset", 0))
    if isinstance(v, GenV):
        OPAQUE_GENERATORS.add(v.func.qname)
        return ("generator", v.func.qname, tuple(sorted((k, T(x)) for k, x in v.bound.items())))
    if isinstance(v, FuncRef):
        return ("fn", v.func.qname)
    if isinstance(v, PartialV):
        return ("partial", T(v.fv), tuple(T(a) for a in v.args), tuple(sorted((k, T(x)) for k, x in v.kwargs.items())))
    if isinstance(v, ExtRef):
        return ("extref", v.dotted)
    if isinstance(v, ClassRef):
        return ("class", v.module.name + "." + v.name)
    if isinstance(v, ObjV):
        return ("obj", v.cls, v.tag)
    if isinstance(v, BoundMethod):
        return ("bound", T(v.obj), v.func.qname)
    if isinstance(v, SuperV):
        return ("super", v.cls)
    if isinstance(v, StaticV):
        return ("const", v.value)
    if isinstance(v, KwV):
        return ("dict", tuple((("const", k), T(x)) for k, x in v.items.items()))
    if v is None:
        return NONE
    return v


def walk(t):
    """all sub-terms (pre-order)"""
    stack = [t]
    while stack:
        x = stack.pop()
        if x == ():
            continue
        yield x
        if isinstance(x, tuple):
            for c in x:
                if isinstance(c, tuple):
                    stack.append(c)


def atoms(t, kinds=("param", "self")):
    return {x for x in walk(t) if isinstance(x, tuple) and x and x[0] in kinds and len(x) >= 2 and isinstance(x[1], str)}


def mentions(t, sub):
    return any(x == sub for x in walk(t))


def subst(t, mapping):
    if t in mapping:
        return mapping[t]
    if isinstance(t, tuple):
        return tuple(subst(c, mapping) if isinstance(c, tuple) else c for c in t)
    return t


def fmt(t, depth=0):
    """compact rendering for reports"""
    if not isinstance(t, tuple) or not t:
        return repr(t)
    k = t[0]
    if depth > 6:
        return "…"
    f = lambda x: fmt(x, depth + 1)
    if k == "const":
        return repr(t[1])
    if k in ("param",):
        return t[1]
    if k == "self":
        return "self." + t[1]
    if k in ("tuple", "list", "set"):
        o, c = {"tuple": "()", "list": "[]", "set": "{}"}[k]
        return o + ", ".join(f(x) for x in t[1]) + c
    if k == "attr":
        return "%s.%s" % (f(t[1]), t[2])
    if k == "sub":
        return "%s[%s]" % (f(t[1]), f(t[2]))
    if k == "slice":
        return ":".join("" if is_const(x, None) else f(x) for x in t[1:3]) + ("" if is_const(t[3], None) else ":" + f(t[3]))
    if k == "unop":
        return "%s(%s)" % (t[1], f(t[2]))
    if k in ("binop", "cmp"):
        return "(%s %s %s)" % (f(t[2]), t[1], f(t[3]))
    if k == "bool":
        return "(" + (" %s " % t[1]).join(f(x) for x in t[2]) + ")"
    if k == "phi":
        return "phi(%s ? %s : %s)" % (f(t[1]), f(t[2]), f(t[3]))
    if k == "call":
        return "%s(%s)" % (t[1].split(".")[-1], ", ".join("%s=%s" % (a, f(b)) for a, b in t[3]))
    if k == "ext":
        return "%s(%s)" % (t[1], ", ".join([f(x) for x in t[2]] + ["%s=%s" % (a, f(b)) for a, b in t[3] if a != "$draw"]))
    if k == "join":
        return "join(" + " | ".join(f(x) for x in t[1]) + ")"
    if k == "method":
        return "%s.%s(%s)" % (f(t[1]), t[2], ", ".join([f(x) for x in t[3]] + ["%s=%s" % (a, f(b)) for a, b in t[4] if a != "$draw"]))
    if k == "apply":
        return "%s(%s)" % (f(t[1]), ", ".join(f(x) for x in t[2]))
    if k in ("elem", "idx", "key", "val"):
        return "%s∈%s" % (k, f(t[1]))
    if k in ("mu", "after"):
        return "%s<%s@%s>" % (k, t[2], t[1][1] if isinstance(t[1], tuple) else t[1])
    if k == "store":
        return "%s{[%s]%s=%s}" % (f(t[1]), f(t[2]), t[4] or "", f(t[3]))
    return "%s(%s)" % (k, ", ".join(f(x) if isinstance(x, tuple) else repr(x) for x in t[1:]))


UNIT_HELPERS = {"sempler.lganm._parse_interventions", "sempler.semi._bootstrap"}


def home_qname(ctx):
    """The function a fact is attributed to: code of an *inlined private helper* (a `_name` function or method of the repository,
    expanded at its call site) counts as code of the function that called it - extracting a helper does not move an obligation."""
    cur = ctx
    for _ in range(12):
        f = cur.func
        if f is None or not ((f.name.startswith("_") and not f.name.startswith("__")) or private_class(f)) or cur.parent is None or cur.parent.func is None:
            break
        cur = cur.parent
    return cur.qname


class Fact:
    """one recorded program fact (call / store / raise / return / loop)"""

    def __init__(self, kind, ctx, node, env, **kw):
        self.kind, self.node = kind, node
        self.func = ctx.func
        # a `return` inside an inlined helper ends the helper, not its caller: it stays the helper's fact
        self.qname = home_qname(ctx) if kind != "return" else ctx.qname
        self.where_qname = ctx.qname
        self.root = (ctx.stack[0][:-6] if ctx.stack[0].endswith("@entry") else ctx.stack[0]) if ctx.stack else ctx.qname      # the function whose analysis reached this (through inlined helpers / its decorators)
        self.path = env.get("$path", ()) if env is not None else ()
        # what `assert` statements on the way established: facts the code states about itself, kept apart from the branch conditions
        # (an added assertion of an invariant does not make the statements after it conditional)
        self.asserts = env.get("$asserts", ()) if env is not None else ()
        self.loops = env.get("$loops", ()) if env is not None else ()
        self.order = kw.pop("order", 0)
        self.__dict__.update(kw)

    def __repr__(self):
        return "<%s %s:%s %s>" % (self.kind, self.qname, getattr(self.node, "lineno", "?"), norm(self.node)[:50])


class Sym(Interp):
    name = "SYM"
    SELF_COPY_NOOP = True
    model_partial = True

    def __init__(self, prog, inline=None):
        super().__init__(prog)
        # default policy: private helpers (`_name`, functions and methods) are expanded at their call sites - extracting a helper
        # must not hide what a function computes - except the two private functions of today's tree that the rules treat as units
        # of their own (analysed where they are defined, referred to by name at their call sites)
        self.inline = inline or (lambda func: ((func.name.startswith("_") and not func.name.startswith("__")) or private_class(func)) and func.qname not in UNIT_HELPERS)
        self.facts = []
        self._order = 0
        self.loopinfo = {}

    # ------------------------------------------------------------------ fact recording
    def fact(self, kind, ctx, node, env, **kw):
        self._order += 1
        f = Fact(kind, ctx, node, env, order=self._order, **kw)
        self.facts.append(f)
        return f

    def select(self, kind=None, qname=None, root=None, **kw):
        out = []
        for f in self.facts:
            if kind is not None and f.kind != kind:
                continue
            if qname is not None and f.qname != qname:
                continue
            if root is not None and f.root != root:
                continue
            if kind == "attrstore" and isinstance(getattr(f, "obj", None), tuple) and f.obj[:1] == ("obj",) and len(f.obj) == 3 and f.obj[2] != "self":
                continue        # attributes of an object the analysed code created itself (working state of a private class) are locals, not the model's
            if all(getattr(f, k, None) == v for k, v in kw.items()):
                out.append(f)
        return out

    # ------------------------------------------------------------------ hooks
    def h_const(self, n, ctx):
        return ("const", n.value)

    def h_unbound(self, name, n, ctx):
        return ("unbound", name)

    def h_seq(self, kind, vals, n, ctx):
        if kind == "tuple":
            return TupleV(vals)
        return (kind, tuple(T(v) for v in vals))

    def h_dict(self, keys, vals, n, ctx):
        return ("dict", tuple((T(k) if k is not None else ("const", "**"), T(v)) for k, v in zip(keys, vals)))

    def h_attr(self, v, attr, n, env, ctx):
        if isinstance(v, ObjV):
            if v is ctx.self_obj or v.tag == "self":
                return ("self", attr)
            return ("attr", T(v), attr)
        return ("attr", T(v), attr)

    def h_subscript(self, base, idx, n, env, ctx):
        if isinstance(base, TupleV) and is_const(T(idx)) and isinstance(T(idx)[1], int) and not isinstance(T(idx)[1], bool):
            k = T(idx)[1]
            if -len(base.items) <= k < len(base.items):
                return base.items[k]
        b = T(base)
        if b[0] in ("tuple", "list") and is_const(T(idx)) and isinstance(T(idx)[1], int) and not isinstance(T(idx)[1], bool):
            k = T(idx)[1]
            if -len(b[1]) <= k < len(b[1]):
                return b[1][k]
        if b[0] == "phi" and len(b) == 4 and is_const(T(idx)) and isinstance(T(idx)[1], int) and not isinstance(T(idx)[1], bool) and \
                any(isinstance(x, tuple) and x and x[0] in ("tuple", "list") for x in (b[2], b[3])):
            # (x if c else (y, 0))[k]: the index goes into both alternatives - a display is taken apart, an opaque value indexed
            return self.mkphi(b[1], T(self.h_subscript(b[2], idx, n, env, ctx)), T(self.h_subscript(b[3], idx, n, env, ctx)))
        ti = T(idx)
        if b[0] == "attr" and b[2] == "shape" and is_const(ti, 0):
            return ("ext", "len", (b[1],), ())                    # X.shape[0] is len(X) (only arrays have a shape)
        FULLS = ("slice", NONE, NONE, NONE)
        if b[0] == "sub" and isinstance(ti, tuple) and ti and ti[0] == "tuple" and len(ti[1]) == 2 and ti[1][0] == FULLS and isinstance(b[2], tuple) and b[2] and \
                b[2][0] not in ("tuple", "slice", "const") and not (b[2][0] in ("elem", "idx")):
            # X[a][:, c]: the second subscript needs two axes, so X[a] (a an index array / a mask, not a scalar) selects rows: X[a, :][:, c], one spelling
            b = ("sub", b[1], ("tuple", (b[2], FULLS)))
            base = b
        if b[0] == "dict" and is_const(ti) and all(is_const(k_) and k_[1] != "**" for k_, _ in b[1]):
            hits = [v_ for k_, v_ in b[1] if k_[1] == ti[1] and type(k_[1]) == type(ti[1])]
            if hits:
                return hits[-1]                   # {'shift': a, 'do': b}['do'] is b: a display with literal keys, read by a literal key
        if isinstance(ti, tuple) and len(ti) == 4 and ti[0] == "ext" and ti[1] == "slice" and 1 <= len(ti[2]) <= 3 and not ti[3]:
            a_ = list(ti[2])                                  # x[slice(a, b)] is x[a:b]
            a_ = [NONE, a_[0], NONE] if len(a_) == 1 else (a_ + [NONE] if len(a_) == 2 else a_)
            return self.h_subscript(base, ("slice", a_[0], a_[1], a_[2]), n, env, ctx)
        if isinstance(ti, tuple) and len(ti) == 4 and ti[0] == "phi" and all(isinstance(x_, tuple) and x_ and (x_[0] == "slice" or (x_[0] == "ext" and x_[1] == "slice")) for x_ in ti[2:4]):
            # x[s1 if c else s2] with two slices: the condition selects between two slices of x
            return self.mkphi(ti[1], T(self.h_subscript(base, ti[2], n, env, ctx)), T(self.h_subscript(base, ti[3], n, env, ctx)))
        if b[0] == "sub" and isinstance(b[1], tuple) and len(b[1]) == 3 and b[1][0] == "attr" and b[1][2] == "T" and not (isinstance(ti, tuple) and ti and ti[0] in ("tuple", "slice")) \
                and not (isinstance(b[2], tuple) and b[2] and b[2][0] in ("tuple", "slice")):
            return ("sub", b[1][1], ("tuple", (ti, b[2])))          # X.T[k][i] is X[i, k]
        if isinstance(ti, tuple) and ti and ti[0] == "slice" and any(isinstance(x_, tuple) and len(x_) == 4 and x_[0] == "phi" for x_ in ti[1:4]):
            # x[a : (b if c else None)] is (x[a:b] if c else x[a:]): a bound chosen by a condition selects between two slices
            k_ = [k for k in (1, 2, 3) if isinstance(ti[k], tuple) and len(ti[k]) == 4 and ti[k][0] == "phi"][0]
            ph = ti[k_]
            s1 = ti[:k_] + (ph[2],) + ti[k_ + 1:]
            s2 = ti[:k_] + (ph[3],) + ti[k_ + 1:]
            return self.mkphi(ph[1], T(self.h_subscript(base, s1, n, env, ctx)), T(self.h_subscript(base, s2, n, env, ctx)))
        if b[0] == "elem" and isinstance(b[1], tuple) and len(b[1]) == 4 and b[1][0] == "ext" and b[1][1] in ("zip", "itertools.product") and not b[1][3] and is_const(T(idx)) and \
                isinstance(T(idx)[1], int) and not isinstance(T(idx)[1], bool) and 0 <= T(idx)[1] < len(b[1][2]):
            # component k of the current tuple of zip(a, b, ...) / itertools.product(a, b, ...) is the current element of its k-th argument; whether the
            # arguments advance together or in all combinations is recorded in the loop's `iter`, where the rules that care look for it
            if getattr(self, "zip_index", False) and b[1][1] == "zip":
                return ("sub", b[1][2][T(idx)[1]], b)        # on request: X_k[position], the position being the current element of the zip itself
            return ("elem", b[1][2][T(idx)[1]])
        if b[0] == "cmp" and len(b) == 4 and b[1] in ("==", "!=", "<", "<=", ">", ">=") and (is_const(b[3]) or is_const(b[2])) and \
                isinstance((b[3] if is_const(b[3]) else b[2])[1], (int, float)):
            # (A != 0)[:, i] is A[:, i] != 0: indexing an elementwise comparison with a scalar = comparing the indexed array
            if is_const(b[3]):
                return ("cmp", b[1], T(self.h_subscript(b[2], idx, n, env, ctx)), b[3])
            return ("cmp", b[1], b[2], T(self.h_subscript(b[3], idx, n, env, ctx)))
        return ("sub", b, T(idx))

    def h_unary(self, op, v, n, ctx):
        v = T(v)
        name = UNOPS[type(op)]
        if name == "neg" and is_const(v) and isinstance(v[1], (int, float)) and not isinstance(v[1], bool):
            return ("const", -v[1])
        if name == "not" and v[0] == "unop" and v[1] == "not":
            return ("unop", "truth", v[2])
        if name == "not" and is_const(v) and isinstance(v[1], bool):
            # `if not flag:` with the flag a literal on this path (keyword of an inlined helper): the test is the other literal
            return ("const", not v[1])
        return ("unop", name, v)

    def h_boolop(self, op, vals, n, ctx):
        return ("bool", "and" if isinstance(op, ast.And) else "or", tuple(T(v) for v in vals))

    def h_binop(self, op, l, r, n, ctx):
        l, r = T(l), T(r)
        o = OPS[type(op)]
        if is_const(l) and is_const(r) and all(isinstance(x[1], (int, float)) and not isinstance(x[1], bool) for x in (l, r)):
            try:
                if o == "+":
                    return ("const", l[1] + r[1])
                if o == "-":
                    return ("const", l[1] - r[1])
                if o == "*":
                    return ("const", l[1] * r[1])
            except Exception:
                pass
        if o in ("+", "-") and is_const(r) and isinstance(r[1], int) and not isinstance(r[1], bool) and l[0] == "binop" and l[1] == "+" and isinstance(l[2], tuple) and \
                l[2][:1] == ("idx",) and is_const(l[3]) and isinstance(l[3][1], int) and not isinstance(l[3][1], bool):
            c_ = l[3][1] + (r[1] if o == "+" else -r[1])           # (position + c1) + c2: a hand-kept counter that starts at c1
            return l[2] if c_ == 0 else ("binop", "+", l[2], ("const", c_))
        return ("binop", o, l, r)

    def h_compare(self, ops, vals, n, ctx):
        vals = [T(v) for v in vals]
        if len(ops) == 1 and isinstance(ops[0], (ast.Eq, ast.NotEq)) and all(isinstance(v, tuple) and len(v) == 2 and v[0] == "const" and isinstance(v[1], str) for v in vals):
            # 'noise' == 'shift': two string literals (the kind of a record in an unrolled dispatch loop against a literal) compare as they do
            return ("const", (vals[0][1] == vals[1][1]) == isinstance(ops[0], ast.Eq))
        parts = [("cmp", CMPS[type(o)], a, b) for o, a, b in zip(ops, vals, vals[1:])]
        return parts[0] if len(parts) == 1 else ("bool", "and", tuple(parts))

    def h_ifexp(self, tv, bv, ov, n, ctx):
        if bv is None:
            return ov
        if ov is None:
            return bv
        b, o = T(bv), T(ov)
        return b if b == o else self.mkphi(T(tv), b, o)

    def h_iter(self, v, n, ctx):
        t = T(v) if not isinstance(v, TupleV) else None
        if isinstance(v, TupleV):
            return ("elem", T(v))
        if t[0] == "ext" and t[1] == "enumerate" and t[2]:
            return TupleV([("idx", t[2][0]), ("elem", t[2][0])])
        if t[0] == "ext" and t[1] == "zip":
            if getattr(self, "zip_index", False):
                return TupleV([T(self.h_subscript(a, ("elem", t), n, None, ctx)) for a in t[2]])      # X_k[position in the zip]
            return TupleV([("elem", a) for a in t[2]])
        if t[0] == "ext" and t[1] == "itertools.product" and not t[3]:
            return TupleV([("elem", a) for a in t[2]])
        if t[0] == "method" and t[2] == "items" and not t[3]:
            return TupleV([("key", t[1]), ("val", t[1])])
        return ("elem", t)

    def h_unpack(self, v, k, n, ctx):
        t = T(v)
        if t[0] in ("tuple", "list") and len(t[1]) == k:
            return list(t[1])
        if t[0] == "phi":
            return [T(self.h_subscript(t, ("const", i), n, None, ctx)) for i in range(k)]
        return [T(self.h_subscript(t, ("const", i), n, None, ctx)) for i in range(k)]

    def _comp_as_loops(self, n, env, ctx, kind="list"):
        """[elt for a in A for b in B if c] executed as the loops it abbreviates (tmp = []; for a in A: for b in B: if c: tmp.append(elt)):
        rules written for the loop form read the comprehension form through this (Sym.desugar, off by default)"""
        tmp = "_comp_%d_%d" % (n.lineno, n.col_offset)

        def at(node, ref):
            return ast.fix_missing_locations(ast.copy_location(node, ref))
        body = at(ast.Expr(ast.Call(ast.Attribute(ast.Name(tmp, ast.Load()), "append" if kind == "list" else "add", ast.Load()), [n.elt], [])), n.elt)
        for k in range(len(n.generators) - 1, -1, -1):
            g = n.generators[k]
            for c in reversed(g.ifs):
                body = at(ast.If(c, [body], []), c)
            body = at(ast.For(g.target, g.iter, [body], [], None), g.iter)
            body._frac = 0.001 * k
        first = at(ast.Assign([ast.Name(tmp, ast.Store())], ast.List([], ast.Load()) if kind == "list" else ast.Call(ast.Name("set", ast.Load()), [], [])), n)
        tnames = {x.id for g in n.generators for x in ast.walk(g.target) if isinstance(x, ast.Name)}
        saved = {k: env[k] for k in tnames if k in env}
        out = self.exec_block([first, body], env, ctx)
        if out is None:
            raise Inconclusive("comprehension body leaves the function", n)
        val = out[tmp]
        if out is not env:
            for k, v in out.items():
                env[k] = v
        for k in tnames:
            env.pop(k, None)
        env.update(saved)
        env.pop(tmp, None)
        return val

    def _comp(self, n, env, ctx, kind):
        if getattr(self, "desugar", False) and kind in ("list", "set") and "$outer" not in env and (self.desugar == "all" or len(n.generators) > 1 or any(g.ifs for g in n.generators)):
            return self._comp_as_loops(n, env, ctx, kind)
        e = {"$outer": env}
        for k, v in env.items():
            if k.startswith("$") and k != "$outer":
                e[k] = v
        # a comprehension over a short literal tuple / list (e.g. of functions) is the literal list of its instances
        if len(n.generators) == 1 and not n.generators[0].ifs and kind in ("list", "gen", "set") and isinstance(n.generators[0].iter, (ast.Tuple, ast.List)) \
                and 0 < len(n.generators[0].iter.elts) <= 8 and not any(isinstance(x, ast.Starred) for x in n.generators[0].iter.elts):
            items = []
            for el in n.generators[0].iter.elts:
                ee = dict(e)
                self.assign(n.generators[0].target, self.ev(el, ee, ctx), ee, ctx, n)
                items.append(T(self.ev(n.elt, ee, ctx)))
                for k_, v_ in ee.items():
                    if k_.startswith("$") and k_ != "$outer":
                        e[k_] = v_
            return ("list", tuple(items))
        gens = []
        for g in n.generators:
            itv = self.ev(g.iter, e, ctx)
            self.assign(g.target, self.h_iter(itv, g.iter, ctx), e, ctx, n)
            conds = tuple(T(self.ev(c, e, ctx)) for c in g.ifs)
            gens.append((norm(g.target), T(itv), conds))
        if kind == "dict":
            elt = ("pair", T(self.ev(n.key, e, ctx)), T(self.ev(n.value, e, ctx)))
        else:
            elt = T(self.ev(n.elt, e, ctx))
        return ("comp", kind, elt, tuple(gens))

    def literal_string(self, v):
        t = T(v)
        return t[1] if is_const(t) and isinstance(t[1], str) else None

    def h_star_element(self, v, n, env, ctx):
        return ("*", T(v))

    def h_fstring(self, vals, n, ctx):
        return ("fstring", tuple(T(v) for v in vals))

    def kwt(self, kwargs):
        return tuple(sorted((k, T(v)) for k, v in kwargs.items()))

    def argt(self, args):
        return tuple(("star", T(a[1])) if isinstance(a, tuple) and len(a) == 2 and a[0] == "*" and not isinstance(a[1], str)
                     else T(a) for a in args)

    def draw_tag(self):
        """random draws / pops are not pure: every evaluation is a distinct value"""
        self._draws = getattr(self, "_draws", 0) + 1
        return (("$draw", ("const", self._draws)),)

    def h_call_ext(self, d, n, args, kwargs, env, ctx):
        if d in ("numpy.atleast_1d", "numpy.atleast_2d", "numpy.atleast_3d") and len(args) > 1 and not kwargs and \
                not any(isinstance(a, tuple) and a and a[0] == "*" for a in args):
            # np.atleast_1d(a, b, c) is the sequence of the three single conversions
            return TupleV([self.h_call_ext(d, n, [a], {}, env, ctx) for a in args], "tuple")
        if d in ("numpy.zeros", "numpy.empty", "numpy.ones") and len(args) == 1 and set(kwargs) == {"dtype"}:
            sh, dt = T(args[0]), T(kwargs["dtype"])
            if sh[0] == "attr" and sh[2] == "shape" and dt == ("attr", sh[1], "dtype"):
                # np.zeros(X.shape, dtype=X.dtype) is np.zeros_like(X)
                return self.h_call_ext(d + "_like", n, [sh[1]], {}, env, ctx)
        if d in ("numpy.flatnonzero", "numpy.nonzero") and len(args) == 1 and not kwargs and not (isinstance(args[0], tuple) and args[0] and args[0][0] == "*"):
            # one spelling for "the indices where x is non-zero": np.nonzero(x) is np.where(x); np.flatnonzero(x) is np.where(x)[0] (for the 1-D
            # masks and columns it is applied to here; on a 2-D array the two differ, and so do the rules that would read either)
            w = self.h_call_ext("numpy.where", n, list(args), {}, env, ctx)
            if d == "numpy.nonzero":
                return w
            return self.h_subscript(w, ("const", 0), n, env, ctx)
        if d in VALUE_IDENTITY_EXT and len(args) == 1 and not kwargs and not (isinstance(args[0], tuple) and args[0] and args[0][0] == "*"):
            # np.asarray(x): the same values (and, for arrays, the same object - aliasing is the ownership domain's business)
            self.fact("call", ctx, n, env, target=d, args=[T(args[0])], kwargs={}, callkind="ext", result=T(args[0]), rawargs=list(args))
            return args[0]
        # canonical spelling for known signatures: the leading data argument(s) positional, every further parameter by keyword -
        # np.argsort(a=x) is np.argsort(x), np.zeros((n, p), float) is np.zeros((n, p), dtype=float), np.triu(A, 1) is np.triu(A, k=1)
        from . import api as _api
        names = None if d.startswith("numpy.random.") else (_api.SLOTS.get(d) or _api.EXT_SIGNATURES.get(d))
        if names and not any(isinstance(a, tuple) and a and a[0] == "*" for a in args) and "**" not in kwargs and len(args) <= len(names):
            npos = _api.EXT_NPOS.get(d, 1)
            args, kwargs = list(args), dict(kwargs)
            while len(args) < min(npos, len(names)) and names[len(args)] in kwargs:
                args.append(kwargs.pop(names[len(args)]))
            if len(args) > npos and not any(nm in kwargs for nm in names[npos:len(args)]):
                for nm, a in zip(names[npos:], args[npos:]):
                    kwargs[nm] = a
                args = args[:npos]
        # one spelling for reductions: np.sum(x, axis=0) is x.sum(axis=0), np.transpose(x) is x.T (x an array-valued term, not a display)
        if d in ("numpy.sum", "numpy.all", "numpy.any", "numpy.max", "numpy.min", "numpy.amax", "numpy.amin") and args and \
                not (isinstance(args[0], tuple) and args[0] and args[0][0] in ("*", "list", "tuple", "comp", "const")) and not isinstance(args[0], TupleV):
            nm = {"amax": "max", "amin": "min"}.get(d.split(".")[-1], d.split(".")[-1])
            return self.h_call_method(args[0], nm, n, list(args[1:]), dict(kwargs), env, ctx)
        if d == "numpy.transpose" and len(args) == 1 and not kwargs and not (isinstance(args[0], tuple) and args[0] and args[0][0] in ("*", "list", "tuple", "comp", "const")):
            return ("attr", T(args[0]), "T")
        if d == "iter" and len(args) == 1 and not kwargs:
            return args[0]                      # iter(x) in a for statement (an __iter__ that delegates): iterating it is iterating x
        if d in ARITH_UFUNCS and len(args) == 2 and not kwargs and not any(isinstance(a, tuple) and a and a[0] == "*" for a in args):
            return self.h_binop(ARITH_UFUNCS[d](), args[0], args[1], n, ctx)       # np.multiply(a, b) is a * b
        if d == "numpy.identity" and len(args) == 1 and not (set(kwargs) - {"dtype"}):
            d = "numpy.eye"                                                         # np.identity(n) is np.eye(n)
        if d in ("any", "all") and len(args) == 1 and not kwargs and isinstance(T(args[0]), tuple) and T(args[0])[0] in ("list", "tuple") and T(args[0])[1]:
            t = ("bool", "or" if d == "any" else "and", tuple(T(args[0])[1]))
            self.fact("call", ctx, n, env, target=d, args=[T(args[0])], kwargs={}, callkind="ext", result=t, rawargs=list(args))
            return t
        impure = d in IMPURE_EXT or (d.startswith("numpy.random.") and d not in ("numpy.random.default_rng", "numpy.random.seed",
                                                                                  "numpy.random.RandomState", "numpy.random.Generator"))
        t = ("ext", d, self.argt(args), self.kwt(kwargs) + (self.draw_tag() if impure else ()))
        self.fact("call", ctx, n, env, target=d, args=[T(a) for a in args], kwargs={k: T(v) for k, v in kwargs.items()},
                  callkind="ext", result=t, rawargs=list(args))
        return t

    def h_call_method(self, recv, attr, n, args, kwargs, env, ctx):
        r = T(recv)
        t = ("method", r, attr, self.argt(args), self.kwt(kwargs) + (self.draw_tag() if attr in IMPURE_METHODS else ()))
        self.fact("call", ctx, n, env, target="." + attr, recv=r, args=[T(a) for a in args],
                  kwargs={k: T(v) for k, v in kwargs.items()}, callkind="method", result=t, rawargs=list(args))
        if attr == "shuffle" and ((args and n.args) or "x" in kwargs):
            # generator.shuffle(x) permutes its argument in place
            xnode = n.args[0] if n.args else next(k.value for k in n.keywords if k.arg == "x")
            self.rebind(xnode, ("shuffled", T(args[0] if args else kwargs["x"]), r) + self.draw_tag(), env, ctx)
        elif attr in MUTATORS:
            self.rebind(n.func.value, ("mut", r, attr, self.argt(args)), env, ctx)
        return t

    def h_call_opaque(self, fv, n, args, kwargs, env, ctx):
        t = ("apply", T(fv), self.argt(args), self.kwt(kwargs), self.draw_tag())
        self.fact("call", ctx, n, env, target="<opaque>", callee=T(fv), args=[T(a) for a in args],
                  kwargs={k: T(v) for k, v in kwargs.items()}, callkind="opaque", result=t, rawargs=list(args))
        return t

    BENIGN_WRAPS = {"numpy.asarray", "numpy.asanyarray", "numpy.array", "numpy.copy", "copy.deepcopy", "copy.copy", "dict", "list", "tuple"}

    def unwrap_param(self, t):
        """param under conversions that keep its value: asarray(p), p.copy(), dict(p or {}), p or {} ... -> ('param', p) | None"""
        for _ in range(6):
            if isinstance(t, tuple) and len(t) == 2 and t[0] == "param":
                return t
            if isinstance(t, tuple) and len(t) == 4 and t[0] == "ext" and t[1] in self.BENIGN_WRAPS and len(t[2]) == 1 and not t[3]:
                t = t[2][0]
            elif isinstance(t, tuple) and len(t) == 5 and t[0] == "method" and t[2] == "copy" and not t[3] and not t[4]:
                t = t[1]
            elif isinstance(t, tuple) and len(t) == 3 and t[0] == "bool" and t[1] == "or" and len(t[2]) == 2 and t[2][1] in (("dict", ()), ("list", ()), ("tuple", ()), ("const", None)):
                t = t[2][0]
            else:
                return None
        return None

    def h_raw_entry_args(self, func, args, kwargs, n, ctx):
        """Symbolic rules are written against the function's own parameters.  Behind a decorator the function receives what
        the wrapper passes: a parameter under a value-keeping conversion counts as that parameter (in whichever slot it
        arrives - a wrong slot is what DECOR.slots and the rules then report); anything else is a transformation the symbolic
        rules do not read through, and the other analyses (zero pattern, ownership, randomness) decide what they can."""
        def norm_arg(a):
            if isinstance(a, tuple) and len(a) == 2 and a[0] == "*":
                raise Inconclusive("the decorator of %s forwards a starred value the analysis cannot take apart" % func.name, n)
            if isinstance(a, GENERIC_VALUES):
                return a
            t = T(a)
            p_ = self.unwrap_param(t)
            if p_ is not None:
                return p_
            if isinstance(t, tuple) and t and t[0] in ("const", "self"):
                return a
            raise Inconclusive("the decorator of %s hands it %s instead of the caller's argument: the symbolic rules do not read through this "
                               "transformation" % (func.name, fmt(t)[:80]), n)
        return [norm_arg(a) for a in args], {k: norm_arg(v) for k, v in kwargs.items()}

    def call_decorated(self, func, selfobj, args, kwargs, n, env, ctx):
        # compositional: a decorated function that is not inlined stays the uninterpreted call `f(args)` for its callers (its own
        # obligations - including what the decorator does - are decided where it is analysed as an entry point)
        from .core import DECORATED_ENTRIES
        if self._entry_bind != func.qname and (not self.inline(func) or func.qname in ctx.stack):
            return self.call_repo_raw(func, selfobj, args, kwargs, n, env, ctx)
        return super().call_decorated(func, selfobj, args, kwargs, n, env, ctx)

    def call_repo_raw(self, func, selfobj, args, kwargs, n, env, ctx):
        # the fact lists the arguments in the callee's parameter order, however the caller spelled the call (keywords that
        # continue the positional prefix are moved into it)
        pp = func.posparams[1:] if func.is_method else func.posparams
        cargs, ckw = [T(a) for a in args], {k: T(v) for k, v in kwargs.items()}
        if not any(isinstance(a, tuple) and a and a[0] == "*" for a in args) and "**" not in ckw:
            while len(cargs) < len(pp) and pp[len(cargs)] in ckw:
                cargs.append(ckw.pop(pp[len(cargs)]))
        f = self.fact("call", ctx, n, env, target=func.qname, args=cargs,
                      kwargs=ckw, callkind="repo", result=None, rawargs=list(args),
                      selfobj=selfobj)
        from .core import DECORATED_ENTRIES
        if (self.inline(func) or func.qname in self.force_interpret) and func.qname not in ctx.stack and not getattr(func, "cached", False):     # a memoised function is not a transparent helper
            r = super().call_repo_raw(func, selfobj, args, kwargs, n, env, ctx)
            f.result = T(r) if r is not None else NONE
            if isinstance(r, GenV):
                return r                        # a generator object: nothing has run, nothing to propagate
            self.propagate_inplace(func, n, env, ctx)
            return r
        # uninterpreted, arguments keyed by parameter name where the binding is unambiguous
        posparams = func.posparams[1:] if func.is_method else func.posparams
        named = []
        for p, a in zip(posparams, args):
            named.append((p, T(a)))
        for k, v in kwargs.items():
            named.append((k, T(v)))
        # canonical argument order = the callee's parameter order, however the caller spelled the call
        rank = {p_: k_ for k_, p_ in enumerate(posparams)}
        canon = sorted(named, key=lambda kv: (rank.get(kv[0], len(rank)), kv[0])) if len({k_ for k_, _ in named}) == len(named) else named
        t = ("call", func.qname, tuple(a for _, a in canon), tuple(sorted(named)))
        f.result = t
        f.named = dict(named)
        if func.name == "__init__" and selfobj is not None:
            return NONE
        return t

    def propagate_inplace(self, func, n, env, ctx):
        """an inlined helper that updates one of its array arguments in place (store / mutating method on the
        parameter) has updated the caller's object: rebind the caller's variable to the updated term"""
        summ, bound = self._last_call
        posparams = func.posparams[1:] if func.is_method else func.posparams
        argnodes = {}
        if isinstance(n, ast.Call):
            for p_, a in zip(posparams, n.args):
                argnodes[p_] = a
            for k in n.keywords:
                if k.arg:
                    argnodes[k.arg] = k.value
        for p_, out in summ.params_out.items():
            if p_ not in bound or p_ not in argnodes:
                continue
            t_in, t_out = T(bound[p_]), T(out)
            if t_out == t_in:
                continue

            def rooted(t):
                # does the updated value consist of in-place updates of the value that came in?
                while isinstance(t, tuple) and t:
                    if t == t_in:
                        return True
                    if t[0] in ("store", "mut", "shuffled"):
                        t = t[1]
                    elif t[0] == "phi":
                        return rooted(t[2]) or rooted(t[3])
                    else:
                        return False
                return False
            if rooted(t_out) and isinstance(argnodes[p_], (ast.Name, ast.Attribute, ast.Subscript)):
                self.rebind(argnodes[p_], out, env, ctx)

    def apply(self, fv, args, kwargs, n, env, ctx):
        if isinstance(fv, ClassRef):
            init = self.prog.method(fv.module, fv.name, "__init__")
            if init is not None and not self.inline(init):
                posparams = init.posparams[1:]
                named = [(p, T(a)) for p, a in zip(posparams, args)] + [(k, T(v)) for k, v in kwargs.items()]
                t = ("new", fv.module.name + "." + fv.name, tuple(a for _, a in named), tuple(sorted(named)))
                f = self.fact("call", ctx, n, env, target=init.qname, args=[T(a) for a in args],
                              kwargs={k: T(v) for k, v in kwargs.items()}, callkind="repo", result=t, rawargs=list(args))
                f.named = dict(named)
                return t
            if init is None and not (fv.name.startswith("_") and self._namedtuple_fields(fv) is not None):
                t = ("new", fv.module.name + "." + fv.name, self.argt(args), self.kwt(kwargs))
                return t
        return super().apply(fv, args, kwargs, n, env, ctx)

    def h_store_sub(self, base, idx, val, target, env, ctx, aug=None):
        b, i, v = T(base), T(idx), T(val)
        self.fact("store", ctx, target, env, base=b, idx=i, value=v, aug=OPS[type(aug)] if aug is not None else None,
                  basenode=target.value)
        return ("store", b, i, v, OPS[type(aug)] if aug is not None else None)

    def h_store_attr(self, obj, attr, val, target, env, ctx):
        self.fact("attrstore", ctx, target, env, obj=T(obj), attr=attr, value=T(val))
        if isinstance(obj, ObjV):
            obj.attrs[attr] = val

    def attr_of(self, v, attr, n, env, ctx):
        if isinstance(v, ObjV) and attr in v.attrs and self.prog.method(v.module, v.cls, attr) is None:
            return v.attrs[attr]
        return super().attr_of(v, attr, n, env, ctx)

    def h_augassign(self, op, cur, val, n, env, ctx):
        return self.h_binop(op, cur, val, n, ctx)

    def h_bind(self, name, v, n, env, ctx):
        return v

    def h_test(self, tv, test, kind, env, ctx):
        self.fact("test", ctx, test, env, term=T(tv), testkind=kind)

    def h_assume(self, tv, test, polarity, env, ctx):
        if env is None:
            return None
        t = T(tv)
        while isinstance(t, tuple) and len(t) == 3 and t[0] == "unop" and t[1] == "not":
            t, polarity = t[2], not polarity         # `if not X:` is the other branch of `if X:` - one spelling in the path conditions
        env["$path"] = env.get("$path", ()) + ((t, polarity),)
        return env

    def st_Assert(self, s, env, ctx):
        tv = self.ev(s.test, env, ctx)
        self.h_test(tv, s.test, "assert", env, ctx)
        if s.msg is not None:
            self.ev(s.msg, env, ctx)
        t, pol = T(tv), True
        while isinstance(t, tuple) and len(t) == 3 and t[0] == "unop" and t[1] == "not":
            t, pol = t[2], not pol
        env["$asserts"] = env.get("$asserts", ()) + ((t, pol),)
        return env

    def h_return(self, v, n, env, ctx):
        self.fact("return", ctx, n, env, value=T(v))
        return v

    def h_raise(self, v, n, env, ctx):
        t = T(v) if v is not None else NONE
        tname = None
        if t[0] == "ext":
            tname = t[1].split(".")[-1]
        elif t[0] == "phi":
            tname = "phi"
        elif t[0] == "exc":
            tname = "reraise"
        self.fact("raise", ctx, n, env, exc=t, exctype=tname)

    def h_missing_arg(self, func, pname, n, ctx):
        return ("missing", pname)

    def h_default(self, func, pname, dnode, ctx):
        return ("default", pname, T(self.ev(dnode, {}, self.module_ctx(func.module))))

    def h_none(self, ctx):
        return NONE

    def h_bottom(self, func):
        return ("rec", func.qname)

    def h_exc_var(self, handler, env, ctx):
        return ("exc", handler.lineno)

    def h_new(self, module, clsname, n, ctx):
        return ObjV(module, clsname, {}, tag=("new", getattr(n, "lineno", 0)))

    def h_apply_effects(self, effects, func, bound, n, env, ctx):
        pass

    def h_returns(self, rets, entry_env, ctx):
        """early returns / guard clauses: the returned value is the phi over the conditions that separate the returns
        (`if c: return a` ... `return b`  ==  `return a if c else b`), not an unordered join"""
        base = len(entry_env.get("$path", ()) or ())
        vals_ = [v for v, _, _ in rets]
        if len(vals_) > 1 and all(isinstance(v, NamedTupleV) for v in vals_) and len({v.fields for v in vals_}) == 1:
            # records of one namedtuple class returned on every path: the record of the per-field values (spec.min is phi(c, a.min, b.min))
            cols = []
            for k_ in range(len(vals_[0].items)):
                col = self.h_returns([(v.items[k_], node, env) for v, node, env in rets], entry_env, ctx)
                if col is None:
                    cols = None
                    break
                cols.append(col)
            if cols is not None:
                return NamedTupleV(cols, vals_[0].fields)
        items = []
        for v, node, env in rets:
            p_ = tuple((env.get("$path", ()) or ())[base:])
            if isinstance(v, GENERIC_VALUES) and not isinstance(v, (TupleV, FuncRef, ExtRef, ClassRef, Closure)):
                return None                 # objects keep their identity; functions and classes are values like any other
            items.append((p_, T(v) if not isinstance(v, TupleV) else T(v)))

        def build(group, depth):
            if len(group) == 1:
                return group[0][1]
            if all(g[1] == group[0][1] for g in group):
                return group[0][1]
            conds = {g[0][depth][0] for g in group if len(g[0]) > depth}
            if len(conds) != 1 or any(len(g[0]) <= depth for g in group):
                return None
            c = next(iter(conds))
            yes = [g for g in group if g[0][depth][1] is True]
            no = [g for g in group if g[0][depth][1] is False]
            if not yes or not no or len(yes) + len(no) != len(group):
                return None
            a, b = build(yes, depth + 1), build(no, depth + 1)
            if a is None or b is None:
                return None
            return self.mkphi(c, a, b)
        return build(items, 0)

    def v_join(self, a, b):
        a, b = T(a), T(b)
        if a == b:
            return a
        items = set()
        for x in (a, b):
            if x[0] == "join":
                items |= set(x[1])
            else:
                items.add(x)
        return ("join", tuple(sorted(items, key=repr)))

    def v_same(self, a, b):
        return T(a) == T(b)

    def key(self, v):
        if isinstance(v, ObjV):
            return ("O", v.cls, id(v))
        return T(v)

    def join_state(self, k, a, b):
        if k in ("$path", "$asserts"):
            a, b = a or (), b or ()
            sb = set(b)
            return tuple(x for x in a if x in sb)
        if k == "$loops":
            return a if a == b else (a or b)
        return super().join_state(k, a, b)

    def state_key(self, env):
        return ()

    # ------------------------------------------------------------------ control flow with conditions
    def st_If(self, s, env, ctx):
        tv = self.ev(s.test, env, ctx)
        if is_static(tv):
            return self.exec_block(s.body if self.static_truth(tv) else s.orelse, env, ctx)
        if is_const(T(tv)) and isinstance(T(tv)[1], bool) and not isinstance(s.test, ast.Constant):
            # a flag that is a literal on this path (an unrolled `for (x, flag) in ((a, False), (b, True))`, a keyword default of an
            # inlined helper): only one branch exists
            return self.exec_block(s.body if T(tv)[1] else s.orelse, env, ctx)
        self.h_test(tv, s.test, "if", env, ctx)
        e1 = self.h_assume(tv, s.test, True, self.fork_env(env), ctx)
        e2 = self.h_assume(tv, s.test, False, self.fork_env(env), ctx)
        o1 = self.exec_block(s.body, e1, ctx) if e1 is not None else None
        o2 = self.exec_block(s.orelse, e2, ctx) if e2 is not None else None
        return self.phi_env(T(tv), o1, o2)

    def join_env(self, e1, e2):
        """environments that meet again after `continue` / `break` / early exit differ by the condition under which one of them
        left: when their path conditions split on one test with opposite polarity, the join is the phi over that test"""
        if e1 is not None and e2 is not None:
            p1, p2 = e1.get("$path", ()) or (), e2.get("$path", ()) or ()
            k = 0
            while k < len(p1) and k < len(p2) and p1[k] == p2[k]:
                k += 1
            if k < len(p1) and k < len(p2) and p1[k][0] == p2[k][0] and p1[k][1] is (not p2[k][1]) and isinstance(p1[k][1], bool):
                return self.phi_env(p1[k][0], e1, e2) if p1[k][1] else self.phi_env(p1[k][0], e2, e1)
        return super().join_env(e1, e2)

    def mkphi(self, cond, ta, tb):
        """phi(cond, a, b); when one side is a value-preserving conversion of the other (np.array(x) / np.asarray(x) /
        np.atleast_nd(x) without dtype - `if not isinstance(x, np.ndarray): x = np.array(x)`) both sides hold the same values:
        the unconverted term stands for them (copy-ness is the ownership domain's business)"""
        def conv_of(t, x):
            return isinstance(t, tuple) and len(t) == 4 and t[0] == "ext" and t[1] in VALUE_CONVERSIONS and len(t[2]) == 1 and t[2][0] == x and not t[3]
        if ta == tb:
            return ta
        while True:
            if isinstance(cond, tuple) and len(cond) == 3 and cond[0] == "unop" and cond[1] == "not":
                cond, ta, tb = cond[2], tb, ta                  # (a if not c else b) is (b if c else a): one spelling, as for the path conditions
            elif isinstance(cond, tuple) and len(cond) == 3 and cond[0] == "bool" and cond[1] in ("and", "or") and cond[2] and \
                    all(isinstance(x, tuple) and len(x) == 3 and x[0] == "unop" and x[1] == "not" for x in cond[2]):
                # (not p or not q) is not (p and q): De Morgan, so that the condition is stated positively
                cond, ta, tb = ("bool", "or" if cond[1] == "and" else "and", tuple(x[2] for x in cond[2])), tb, ta
            else:
                break
        if conv_of(ta, tb):
            return tb
        if conv_of(tb, ta):
            return ta
        return ("phi", cond, ta, tb)

    def phi_env(self, cond, o1, o2):
        if o1 is None:
            return o2
        if o2 is None:
            return o1
        while True:
            if isinstance(cond, tuple) and len(cond) == 3 and cond[0] == "unop" and cond[1] == "not":
                cond, o1, o2 = cond[2], o2, o1
            elif isinstance(cond, tuple) and len(cond) == 3 and cond[0] == "bool" and cond[1] in ("and", "or") and cond[2] and \
                    all(isinstance(x, tuple) and len(x) == 3 and x[0] == "unop" and x[1] == "not" for x in cond[2]):
                cond, o1, o2 = ("bool", "or" if cond[1] == "and" else "and", tuple(x[2] for x in cond[2])), o2, o1
            else:
                break
        out = {}
        mu = set(o1.get("$mu", ())) | set(o2.get("$mu", ()))
        for k in set(o1) | set(o2):
            if k == "$mu":
                continue
            if k.startswith("$"):
                out[k] = self.join_state(k, o1.get(k), o2.get(k))
                continue
            if k in o1 and k in o2:
                a, b = o1[k], o2[k]
                if a is b:
                    out[k] = a
                elif isinstance(a, (ObjV, Closure, FuncRef, ExtRef, ClassRef)) or isinstance(b, (ObjV, Closure, FuncRef, ExtRef, ClassRef)):
                    out[k] = a if self.key(a) == self.key(b) else ("phi", cond, T(a), T(b))
                else:
                    ta, tb = T(a), T(b)
                    out[k] = a if ta == tb else self.mkphi(cond, ta, tb)
            else:
                present = o1.get(k, o2.get(k))
                out[k] = ("phi", cond, T(present), ("unbound", k)) if k in o1 else ("phi", cond, ("unbound", k), T(present))
                mu.add(k)
        if mu:
            out["$mu"] = frozenset(mu)
        return out

    def _loop(self, s, env, ctx, is_for):
        if is_for and isinstance(s.iter, (ast.Tuple, ast.List)) and 0 < len(s.iter.elts) <= 8 and not any(isinstance(e_, ast.Starred) for e_ in s.iter.elts) \
                and any(isinstance(e_, (ast.Tuple, ast.List)) for e_ in s.iter.elts):
            # for (x, flag) in ((a, False), (b, True)): a loop over a literal display of records is the sequence of its bodies
            return self._unrolled(s, [self.ev(e_, env, ctx) for e_ in s.iter.elts], env, ctx)
        if is_for and isinstance(s.iter, ast.Name):
            # the same with the display bound to a name first (a local `stages = ((a, f), (b, g))`, a module-level dispatch table)
            try:
                tv_ = self.ev(s.iter, env, ctx)
            except Inconclusive:
                tv_ = None
            if isinstance(tv_, TupleV) and tv_.kind != ARGS and 0 < len(tv_.items) <= 8 and all(isinstance(x_, TupleV) for x_ in tv_.items):
                return self._unrolled(s, list(tv_.items), env, ctx)
        if is_for and self.static_rooted(s.iter, env, ctx):
            itv0 = self.ev(s.iter, env, ctx)
            if isinstance(itv0, KwV):
                itv0 = TupleV([StaticV(k) for k in itv0.items], ARGS)
            if isinstance(itv0, TupleV) and itv0.kind == ARGS:
                return self._unrolled(s, list(itv0.items), env, ctx)
        lid = ("loop", getattr(s, "lineno", 0) + getattr(s, "_frac", 0), home_qname(ctx))
        nfacts = len(self.facts)
        order = self._order
        memo_before = set(self.memo)
        # pass 1: which names does the body rebind?
        saved_attrs = dict(ctx.self_obj.attrs) if isinstance(ctx.self_obj, ObjV) else None
        probe = dict(env)
        probe["$loops"] = env.get("$loops", ()) + (lid,)
        ctx.loops.append({"breaks": [], "conts": []})
        try:
            if is_for:
                itv = self.ev(s.iter, probe, ctx)
                self.assign(s.target, self.h_iter(itv, s.iter, ctx), probe, ctx, s)
            else:
                self.ev(s.test, probe, ctx)
            before = {k: (v if isinstance(v, (ObjV,)) else T(v)) for k, v in probe.items() if not k.startswith("$")}
            out = self.exec_block(s.body, probe, ctx)
            outs = [e for e in [out] + ctx.loops[-1]["conts"] + ctx.loops[-1]["breaks"] if e is not None]
        finally:
            ctx.loops.pop()
        changed = set()
        for e in outs:
            for k, v in e.items():
                if k.startswith("$"):
                    continue
                if k not in before or (not isinstance(v, ObjV) and T(v) != before[k]):
                    if k in env:
                        changed.add(k)
        tnames = {x.id for x in ast.walk(s.target) if isinstance(x, ast.Name)} if is_for else set()
        changed -= tnames
        del self.facts[nfacts:]
        self._order = order
        for k_ in set(self.memo) - memo_before:
            del self.memo[k_]             # helpers summarised during the probe are analysed again in pass 2, where their facts are kept
        if saved_attrs is not None:
            ctx.self_obj.attrs.clear()
            ctx.self_obj.attrs.update(saved_attrs)
        # pass 2: loop-carried names become mu symbols
        cur = dict(env)
        cur["$loops"] = env.get("$loops", ()) + (lid,)
        init = {}
        ind = getattr(self, "_induction", {}).get((lid, id(s)), {})
        nfacts2, order2, memo2 = len(self.facts), self._order, set(self.memo)
        attrs2 = dict(ctx.self_obj.attrs) if isinstance(ctx.self_obj, ObjV) else None
        for k in changed:
            init[k] = T(env[k])
            cur[k] = ind.get(k, ("mu", lid, k))
        ctx.loops.append({"breaks": [], "conts": []})
        try:
            if is_for:
                itv = self.ev(s.iter, env, ctx)
                self.h_test(itv, s.iter, "for", env, ctx)
                self.assign(s.target, self.h_iter(itv, s.iter, ctx), cur, ctx, s)
                test = None
                body_env = cur
            else:
                itv = None
                test = self.ev(s.test, cur, ctx)
                self.h_test(test, s.test, "while", cur, ctx)
                body_env = self.h_assume(test, s.test, True, dict(cur), ctx)
            entry = {k: v for k, v in body_env.items()}
            out = self.exec_block(s.body, body_env, ctx)
            lp = ctx.loops[-1]
        finally:
            ctx.loops.pop()
        outs = [e for e in [out] + lp["conts"] if e is not None]
        nxt = {}
        for k in changed:
            vals = []
            for e in outs:
                if k in e:
                    vals.append(T(e[k]))
            u = []
            for v in vals:
                if v not in u:
                    u.append(v)
            if len(u) == 2 and len(outs) == 2 and all(k in e for e in outs):
                # fall-through and one `continue`: a phi over the test on which their paths split, when there is one
                m = self.join_env(dict(outs[0]), dict(outs[1]))
                if m is not None and k in m and not (isinstance(T(m[k]), tuple) and T(m[k])[:1] == ("join",)):
                    nxt[k] = T(m[k])
                    continue
            nxt[k] = u[0] if len(u) == 1 else (("join", tuple(u)) if u else ("mu", lid, k))
        if is_for and not ind:
            # a counter kept by hand (k = 0 before the loop, k += 1 once on every path of the body) is the position of the current element: enumerate()
            tv_ = T(itv)
            pos = ("idx", tv_[2][0]) if tv_[0] == "ext" and tv_[1] == "enumerate" and len(tv_[2]) == 1 else ("idx", tv_)
            found = {k: (pos if init[k][1] == 0 else ("binop", "+", pos, ("const", init[k][1]))) for k in changed
                     if is_const(init[k]) and isinstance(init[k][1], int) and not isinstance(init[k][1], bool) and
                     nxt.get(k) in (("binop", "+", ("mu", lid, k), ("const", 1)), ("binop", "+", ("const", 1), ("mu", lid, k)))}
            if found:
                if not hasattr(self, "_induction"):
                    self._induction = {}
                self._induction[(lid, id(s))] = found
                del self.facts[nfacts2:]
                self._order = order2
                for k_ in set(self.memo) - memo2:
                    del self.memo[k_]
                if attrs2 is not None:
                    ctx.self_obj.attrs.clear()
                    ctx.self_obj.attrs.update(attrs2)
                return self._loop(s, env, ctx, is_for)
        self.loopinfo[lid] = {"node": s, "iter": T(itv) if itv is not None else None, "test": T(test) if test is not None else None,
                              "init": init, "next": nxt, "changed": sorted(changed), "func": home_qname(ctx),
                              "body_out": out, "breaks": lp["breaks"], "entry": entry,
                              "target": norm(s.target) if is_for else None, "induction": dict(ind)}
        self.fact("loop", ctx, s, env, lid=lid, iter=T(itv) if itv is not None else None,
                  test=T(test) if test is not None else None)
        after = dict(env)
        for k in changed:
            after[k] = ("after", lid, k)
        for k in tnames:
            if k in cur:
                after[k] = ("after", lid, k)
        if s.orelse:
            # the else suite runs when the loop ends without `break`; a `break` exit skips it
            left_by_break = self.fork_env(after) if lp["breaks"] else None
            after = self.exec_block(s.orelse, after, ctx)
            if left_by_break is not None:
                after = left_by_break if after is None else super().join_env(after, left_by_break)
        return after

    def st_Try(self, s, env, ctx):
        # record which calls sit inside which try (handlers by type) for the exception-propagation rules
        start = len(self.facts)
        out = super().st_Try(s, env, ctx)
        def passes_on(h):
            # the handler ends by re-raising what it caught and has no other way out: it swallows nothing
            last = h.body[-1] if h.body else None
            if not (isinstance(last, ast.Raise) and (last.exc is None or (isinstance(last.exc, ast.Name) and last.exc.id == h.name and last.cause is None))):
                return False
            return not any(isinstance(x, (ast.Return, ast.Break, ast.Continue)) for st_ in h.body for x in ast.walk(st_))
        types = []
        for h in s.handlers:
            if passes_on(h):
                continue
            if h.type is None:
                types.append("*")
            else:
                for t in (h.type.elts if isinstance(h.type, ast.Tuple) else [h.type]):
                    types.append((dotted_of(t) or "?").split(".")[-1])
        body_lines = set()
        for st in s.body:
            for x in ast.walk(st):
                if hasattr(x, "lineno"):
                    body_lines.add(id(x))
        for f in self.facts[start:]:
            if types and id(f.node) in body_lines:
                f.__dict__.setdefault("in_try", []).append((s, tuple(types)))
        return out


# ====================================================================== drivers
def run_function(S, func, args=None, selfobj=None):
    """symbolically evaluate one function with parameters as symbols"""
    ctx = S.module_ctx(func.module)
    bound = {}
    for p in func.params:
        bound[p] = ("param", p)
    if func.vararg:
        bound[func.vararg] = ("param", func.vararg)
    if func.kwarg:
        bound[func.kwarg] = ("param", func.kwarg)
    if args:
        bound.update(args)
    if func.is_method and selfobj is None:
        selfobj = ObjV(func.module, func.cls, {}, tag="self")
    env = {}
    return S.summary(func, selfobj, bound, env, ctx, func.node), selfobj


def kwargs_of(t):
    """keyword arguments of a method / ext term without the purity tag"""
    kw = t[4] if t[0] == "method" else t[3]
    return {k: v for k, v in kw if k != "$draw"}
