"""sverif - static verification of juangamella/sempler (see /verif/DESIGN.md).

Everything here decides properties from the *source text* of the repository
(parsed with ``ast``); nothing of the repository is ever imported or run.
"""
