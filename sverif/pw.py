"""PW - pointwise abstract evaluation over the zero/sign domain (DESIGN.md 3.5).

Graph utilities that are elementwise in the pair (a, b) = (A[i, j], A[j, i]) are determined by a
finite table.  The table is computed from the SYM term of the function (callees inlined) by the
abstract transfer functions below, once per valuation of the atoms

    pair(node)  in signs.PAIRS      the two entries joining the row node and a generic node j
    g           i > j               (only where an index comparison occurs)
    si, sj      i in S, j in S      (only where a node subset occurs)

and compared with the oracle table written from the property statement.  Nothing is executed.
"""
import ast
import itertools

from . import signs
from .signs import Z, P, N, ONE, T as TOP
from .loader import Inconclusive
from .sym import Sym, run_function, T, fmt, is_const, CLOSURES, walk

FULL = ("slice", ("const", None), ("const", None), ("const", None))


class E:
    """matrix entry: sign + tag ('a' / 'b' = the caller's original entry, None = computed)"""
    __slots__ = ("sign", "tag")

    def __init__(self, sign, tag=None):
        self.sign, self.tag = sign, tag

    def __repr__(self):
        return "%s%s" % (self.sign, "=" + self.tag if self.tag else "")

    def key(self):
        return (self.sign, self.tag)


class M:
    """matrix: node key -> (entry at [node, j], entry at [j, node]); key '*' = generic (i, j)"""

    def __init__(self, d):
        self.d = d


class V:
    def __init__(self, e):
        self.e = e


class I:
    """index set {j | b}"""

    def __init__(self, b):
        self.b = b


class PS:
    """set / list of ordered pairs: membership of (i, j) and of (j, i)"""

    def __init__(self, ij, ji):
        self.ij, self.ji = ij, ji


class WH:
    def __init__(self, ps, k):
        self.ps, self.k = ps, k


class PMASK:
    """boolean mask over the pairs of a pair list: first component > (or <) second component"""

    def __init__(self, ps, rel, strict):
        self.ps, self.rel, self.strict = ps, rel, strict


class LISTOF:
    def __init__(self, ps, e_ij, e_ji):
        self.ps, self.e_ij, self.e_ji = ps, e_ij, e_ji


class MAP:
    def __init__(self, ps, e_ij, e_ji):
        self.ps, self.e_ij, self.e_ji = ps, e_ij, e_ji


class CNT:
    """sum over all entries of a matrix (kind 'all') or along an axis (kind 'axis')"""

    def __init__(self, m, kind):
        self.m, self.kind = m, kind


class NODE:
    def __init__(self, name):
        self.name = name


class SUBSET:
    def __init__(self, name):
        self.name = name


def nzb(e):
    if isinstance(e, bool) or e is None:
        return e
    return signs.nonzero(e.sign)


def band(x, y):
    x, y = nzb(x), nzb(y)
    if x is False or y is False:
        return False
    if x is True and y is True:
        return True
    return None


def bor(x, y):
    x, y = nzb(x), nzb(y)
    if x is True or y is True:
        return True
    if x is False and y is False:
        return False
    return None


def bnot(x):
    x = nzb(x)
    return None if x is None else (not x)


def b2e(b):
    return E(ONE if b is True else Z if b is False else TOP)


def lift(f, *xs):
    if all(isinstance(x, M) for x in xs):
        keys = set(xs[0].d)
        if any(set(x.d) != keys for x in xs):
            raise Inconclusive("pointwise combination of matrices over different node sets")
        return M({k: (f(*[x.d[k][0] for x in xs]), f(*[x.d[k][1] for x in xs])) for k in keys})
    if all(isinstance(x, V) for x in xs):
        return V(f(*[x.e for x in xs]))
    if all(isinstance(x, I) for x in xs):
        return I(f(*[x.b for x in xs]))
    if all(isinstance(x, PS) for x in xs):
        return PS(f(*[x.ij for x in xs]), f(*[x.ji for x in xs]))
    if all(isinstance(x, (E, bool)) or x is None for x in xs):
        return f(*xs)
    # broadcasting a scalar
    shaped = [x for x in xs if isinstance(x, (M, V))]
    if shaped and all(isinstance(x, (M, V, E)) for x in xs):
        proto = shaped[0]
        ys = []
        for x in xs:
            if isinstance(x, E):
                x = M({k: (x, x) for k in proto.d}) if isinstance(proto, M) else V(x)
            ys.append(x)
        return lift(f, *ys)
    raise Inconclusive("pointwise combination of %s" % [type(x).__name__ for x in xs])


def eop(op):
    def f(x, y):
        x = x if isinstance(x, E) else b2e(x)
        y = y if isinstance(y, E) else b2e(y)
        return E({"+": signs.add, "-": signs.sub, "*": signs.mul}[op](x.sign, y.sign))
    return f


class Eval:
    def __init__(self, env, val, diagonal=False):
        self.env, self.val = env, val     # val: atoms {'g':bool, 'si':bool, 'sj':bool}
        self.used_atoms = set()
        self.diagonal = diagonal          # evaluate the generic entry on the diagonal (i == j)

    def atom(self, name):
        self.used_atoms.add(name)
        if name not in self.val:
            raise Inconclusive("atom %s needed" % name)
        return self.val[name]

    def ev(self, t):
        if t in self.env:
            return self.env[t]
        if not isinstance(t, tuple):
            raise Inconclusive("PW: unexpected %r" % (t,))
        m = getattr(self, "t_" + t[0], None)
        if m is None:
            raise Inconclusive("PW: term kind %s outside the elementwise fragment: %s" % (t[0], fmt(t)[:80]))
        return m(t)

    def t_param(self, t):
        raise Inconclusive("PW: parameter %s has no pointwise role" % t[1])

    def t_default(self, t):
        return self.ev(t[2])

    def t_const(self, t):
        c = t[1]
        if isinstance(c, bool):
            return c
        if isinstance(c, (int, float)):
            return E(signs.const_sign(c))
        raise Inconclusive("PW: constant %r" % (c,))

    def t_attr(self, t):
        x = self.ev(t[1])
        if t[2] == "T" and isinstance(x, M):
            return M({k: (b, a) for k, (a, b) in x.d.items()})
        if t[2] == "T" and isinstance(x, V):
            return x
        raise Inconclusive("PW: attribute .%s" % t[2])

    def t_cmp(self, t):
        op, l, r = t[1], self.ev(t[2]), self.ev(t[3])
        if isinstance(l, WH) and isinstance(r, WH) and {l.k, r.k} == {0, 1} and op in (">", ">=", "<", "<=") and \
                (l.ps is r.ps or ((l.ps.ij, l.ps.ji) == (r.ps.ij, r.ps.ji) and t[2][0] == "sub" and t[3][0] == "sub" and t[2][1] == t[3][1])):
            # fro > to on the two index arrays of np.where: a mask over the pairs
            rel = {">": ">", ">=": ">", "<": "<", "<=": "<"}[op]
            if (l.k, r.k) == (1, 0):
                rel = "<" if rel == ">" else ">"
            return PMASK(l.ps, rel, op in (">", "<"))
        if isinstance(r, E) and r.sign == Z and op in ("!=", "=="):
            return lift((lambda e: nzb(e)) if op == "!=" else (lambda e: bnot(e)), l)
        if isinstance(l, E) and l.sign == Z and op in ("!=", "=="):
            return lift((lambda e: nzb(e)) if op == "!=" else (lambda e: bnot(e)), r)
        if isinstance(r, bool) and op in ("==", "!="):
            want = r if op == "==" else (not r)
            return lift((lambda e: nzb(e)) if want else (lambda e: bnot(e)), l)
        if isinstance(r, E) and op in (">", ">=", "<", "<=") and r.sign == Z:
            # the sign of an entry against 0 (abs(a) > 0 is a != 0)
            def f0(e):
                s = e.sign if isinstance(e, E) else (ONE if e is True else Z if e is False else TOP)
                s = signs.pos(s)
                if s not in (Z, P, N):
                    return None
                v = {Z: 0, P: 1, N: -1}[s]
                return {">": v > 0, ">=": v >= 0, "<": v < 0, "<=": v <= 0}[op]
            return lift(f0, l)
        if isinstance(r, E) and op in (">", ">=", "<", "<=") and r.sign in (Z, ONE):
            # comparisons of a 0/1-valued entry with 0 or 1
            def f(e):
                s = e.sign if isinstance(e, E) else (ONE if e is True else Z if e is False else TOP)
                if s not in (Z, ONE):
                    return None
                v, c = (1 if s == ONE else 0), (1 if r.sign == ONE else 0)
                return {">": v > c, ">=": v >= c, "<": v < c, "<=": v <= c}[op]
            return lift(f, l)
        raise Inconclusive("PW: comparison %s outside the fragment" % fmt(t)[:80])

    def t_unop(self, t):
        x = self.ev(t[2])
        if t[1] in ("not", "~"):
            return lift(bnot, x)
        if t[1] == "neg":
            return lift(lambda e: E(signs.neg(e.sign)), x)
        if t[1] == "truth":
            return lift(nzb, x)
        raise Inconclusive("PW: unary %s" % t[1])

    def t_bool(self, t):
        vals = [self.ev(x) for x in t[2]]
        r = vals[0]
        for v in vals[1:]:
            r = lift(band if t[1] == "and" else bor, r, v)
        return r

    def t_binop(self, t):
        op = t[1]
        l, r = self.ev(t[2]), self.ev(t[3])
        if op in ("+", "-", "*"):
            if isinstance(l, I) and isinstance(r, I) and op == "-":
                return I(band(l.b, bnot(r.b)))
            if isinstance(l, PS) and isinstance(r, PS) and op == "+":
                return PS(bor(l.ij, r.ij), bor(l.ji, r.ji))          # list concatenation of edge lists (membership)
            return lift(eop(op), l, r)
        if op in ("&", "|", "^"):
            f = {"&": band, "|": bor, "^": lambda a, b: None if nzb(a) is None or nzb(b) is None else nzb(a) != nzb(b)}[op]
            return lift(f, l, r)
        raise Inconclusive("PW: operator %s" % op)

    def node_of(self, t):
        v = self.env.get(t)
        return v if isinstance(v, NODE) else None

    def t_sub(self, t):
        base_t, idx = t[1], t[2]
        base = self.ev(base_t)
        if isinstance(base, WH) is False and isinstance(base, tuple):
            pass
        if isinstance(base, M) and idx[0] == "tuple" and len(idx[1]) == 2 and set(idx[1]) <= {("$i",), ("$j",)} and "*" in base.d:
            a_, b_ = base.d["*"]
            if self.diagonal or idx[1][0] == idx[1][1]:
                if not self.diagonal:
                    raise Inconclusive("PW: a diagonal entry is read while the generic pair is off the diagonal")
                return a_
            return a_ if tuple(idx[1]) == (("$i",), ("$j",)) else b_
        if isinstance(base, M) and idx[0] not in ("tuple", "slice") and (self.node_of(idx) is not None or self.is_subset(idx)):
            # X[i] / X[S] of a matrix: a missing trailing index is a full slice
            return self.t_sub(("sub", base_t, ("tuple", (idx, FULL))))
        if isinstance(base, M) and idx[0] == "tuple" and len(idx[1]) == 2:
            r, c = idx[1]
            if c == FULL and self.node_of(r) is not None:
                k = self.node_of(r).name
                return V(self.entry(base, k)[0])
            if r == FULL and self.node_of(c) is not None:
                k = self.node_of(c).name
                return V(self.entry(base, k)[1])
            # principal sub-matrix X[S, :][:, S] of a generic matrix keeps the pair structure
            if c == FULL and self.is_subset(r):
                return ROWSEL(base, r)
        if isinstance(base, ROWSEL) and idx[0] == "tuple" and len(idx[1]) == 2:
            r, c = idx[1]
            if r == FULL and c == base.sel:
                return base.m
        if isinstance(base, WHERE):
            if is_const(idx) and idx[1] in (0, 1):
                if isinstance(base.x, (V, I)):
                    if idx[1] == 0:
                        return I(nzb(base.x.e) if isinstance(base.x, V) else base.x.b)
                else:
                    return WH(base.ps, idx[1])
        if isinstance(base, WH):
            m = self.ev(idx)
            if isinstance(m, PMASK) and (m.ps is base.ps or (m.ps.ij, m.ps.ji) == (base.ps.ij, base.ps.ji)):
                # fro[fro > to]: the index array restricted to the pairs the mask keeps (the same pairs for both arrays)
                cache = self.__dict__.setdefault("_pmask_cache", {})
                key = (repr((base.ps.ij, base.ps.ji)), m.rel, m.strict, self.diagonal)
                if key not in cache:
                    ps = base.ps
                    if self.diagonal:
                        keep = not m.strict
                        cache[key] = PS(band(ps.ij, keep), band(ps.ji, keep))
                    else:
                        g = self.atom("g")        # i > j
                        keep_ij = g if m.rel == ">" else (not g)
                        keep_ji = (not g) if m.rel == ">" else g
                        cache[key] = PS(band(ps.ij, keep_ij), band(ps.ji, keep_ji))
                return WH(cache[key], base.k)
        if isinstance(base, M):
            # masked read  X[mask]
            m = self.ev(idx)
            if isinstance(m, M):
                return MASKED(base, m, idx)
        raise Inconclusive("PW: subscript %s" % fmt(t)[:80])

    def is_subset(self, t):
        if isinstance(self.env.get(t), SUBSET):
            return True
        return t[0] == "ext" and t[1] in ("list", "sorted", "tuple", "numpy.array") and len(t[2]) == 1 and self.is_subset(t[2][0])

    def entry(self, m, k):
        if k in m.d:
            return m.d[k]
        if "*" in m.d and len(m.d) == 1:
            return m.d["*"]
        raise Inconclusive("PW: matrix has no row for node %s" % k)

    def t_store(self, t):
        _, base_t, idx_t, val_t, aug = t
        base = self.ev(base_t)
        if aug is not None or not isinstance(base, M):
            raise Inconclusive("PW: store %s" % fmt(t)[:80])
        # row-subset store  mask[list(S), :] = True
        if idx_t[0] == "tuple" and len(idx_t[1]) == 2 and idx_t[1][1] == FULL and self.is_subset(idx_t[1][0]):
            v = self.ev(val_t)
            ve = v if isinstance(v, E) else b2e(v)
            si, sj = self.atom("si"), self.atom("sj")
            return M({k: (ve if si else a, ve if sj else b) for k, (a, b) in base.d.items()})
        mask = self.ev(idx_t)
        if not isinstance(mask, M):
            raise Inconclusive("PW: store index %s" % fmt(idx_t)[:60])
        val = self.ev(val_t)
        if isinstance(val, MASKED):
            if val.idx_t != idx_t:
                raise Inconclusive("PW: masked copy with two different masks")
            src = val.m
        elif isinstance(val, (E, bool)):
            ve = val if isinstance(val, E) else b2e(val)
            src = M({k: (ve, ve) for k in base.d})
        else:
            raise Inconclusive("PW: stored value %s" % fmt(val_t)[:60])

        def sel(mk, s, g):
            mk = nzb(mk)
            return s if mk is True else g if mk is False else E(TOP)
        return M({k: (sel(mask.d[k][0], src.d[k][0], base.d[k][0]), sel(mask.d[k][1], src.d[k][1], base.d[k][1])) for k in base.d})

    def t_method(self, t):
        _, recv_t, name, args, kwargs = t
        if name in ("intersection", "union", "difference", "symmetric_difference") and len(args) == 1 and not kwargs:
            # the named set operations are the operators & | - ^
            return self.ev(("binop", {"intersection": "&", "union": "|", "difference": "-", "symmetric_difference": "^"}[name], recv_t, args[0]))
        x = self.ev(recv_t)
        if name == "copy":
            return x
        if name == "astype" and args:
            tgt = args[0][1] if args[0][0] in ("extref", "const") else None
            tgt = str(tgt).split(".")[-1].rstrip("_") if tgt is not None else None
            if tgt in ("int64", "int32", "int16", "int8", "intp", "uint8", "uint16", "uint32", "uint64", "intc", "longlong"):
                tgt = "int"
            if tgt in ("float64", "float32", "double", "longdouble", "float16", "single"):
                tgt = "float"
            if tgt in ("bool",):
                return lift(lambda e: b2e(nzb(e)), x)
            if tgt in ("int", "float"):
                def f(e):
                    if isinstance(e, bool) or e is None:
                        return b2e(e)
                    if e.sign in (Z, ONE) or tgt == "float":
                        return e
                    return E(TOP)      # integer truncation of a real weight
                return lift(f, x)
        if name == "sum" and isinstance(x, M):
            return CNT(x, axis_kind(args, kwargs, 0))
        if name in ("all", "any") and isinstance(x, M):
            ak = axis_kind(args, kwargs, 0)
            return CNT(x, name if ak == "all" else "%s-%s" % (name, ak))
        raise Inconclusive("PW: method .%s" % name)

    def t_ext(self, t):
        _, d, args, kwargs = t
        if d in ("numpy.logical_and", "numpy.logical_or") and len(args) == 2:
            return lift(band if d.endswith("and") else bor, self.ev(args[0]), self.ev(args[1]))
        if d == "numpy.logical_not" and len(args) == 1:
            return lift(bnot, self.ev(args[0]))
        if d in ("numpy.eye", "numpy.identity"):
            c = E(ONE) if self.diagonal else E(Z)
            return M({"*": (c, c)})
        if d in ("numpy.zeros_like", "numpy.ones_like") and args:
            x = self.ev(args[0])
            if isinstance(x, M):
                c = E(Z) if d.endswith("zeros_like") else E(ONE)
                return M({k: (c, c) for k in x.d})
        if d == "numpy.where" and len(args) == 1:
            x = self.ev(args[0])
            if isinstance(x, M):
                a, b = x.d["*"] if "*" in x.d else (None, None)
                if "*" not in x.d:
                    raise Inconclusive("PW: np.where of a node-indexed matrix")
                return WHERE(x, PS(nzb(a), nzb(b)))
            if isinstance(x, (V, I)):
                return WHERE(x, None)
        if d == "numpy.where" and len(args) == 3:
            c_, a_, b_ = self.ev(args[0]), self.ev(args[1]), self.ev(args[2])

            def sel3(c, a, b):
                c = nzb(c)
                a = a if isinstance(a, E) else b2e(a)
                b = b if isinstance(b, E) else b2e(b)
                if c is True:
                    return E(a.sign)
                if c is False:
                    return E(b.sign)
                return E(a.sign) if a.sign == b.sign else E(TOP)
            return lift(sel3, c_, a_, b_)
        if d == "numpy.flatnonzero" and len(args) == 1:
            x = self.ev(args[0])
            if isinstance(x, (V, I)):
                return I(nzb(x.e) if isinstance(x, V) else x.b)      # = np.where(x)[0] for a vector
        if d == "numpy.nonzero" and len(args) == 1:
            return self.t_ext(("ext", "numpy.where", args, ()))
        if d in ("set", "list", "tuple", "frozenset", "numpy.array", "numpy.asarray", "sorted", "iter") and len(args) == 1:
            x = self.ev(args[0])
            dt_ = dict(kwargs).get("dtype")
            if dt_ is not None and isinstance(x, (M, V)) and d in ("numpy.array", "numpy.asarray"):
                nm_ = str(dt_[1]).split(".")[-1].rstrip("_") if isinstance(dt_, tuple) and len(dt_) == 2 else ""
                if nm_ == "bool":
                    return lift(lambda e: b2e(nzb(e)), x)
                if nm_ in ("int", "int64", "int32", "int16", "int8", "intp", "uint8", "uint16", "uint32", "uint64", "intc", "longlong"):
                    # same as .astype(int): exact on booleans / 0-1 entries, truncation (unknown sign) on real weights
                    return self.t_method(("method", args[0], "astype", (("extref", "int"),), ()))
                if nm_ not in ("float", "float64", "double"):
                    raise Inconclusive("PW: conversion to dtype %s" % nm_)
            if isinstance(x, (I, PS, MAP, LISTOF, M, V)):
                return x
        if d == "dict" and len(args) == 1:
            x = self.ev(args[0])
            if isinstance(x, MAP):
                return x
        if d == "zip" and len(args) == 2:
            a, b = self.ev(args[0]), self.ev(args[1])
            if isinstance(a, WH) and isinstance(b, WH) and a.ps is b.ps or (isinstance(a, WH) and isinstance(b, WH)
                                                                            and (a.ps.ij, a.ps.ji) == (b.ps.ij, b.ps.ji) and args[0][1] == args[1][1]):
                if (a.k, b.k) == (0, 1):
                    return a.ps
                if (a.k, b.k) == (1, 0):
                    return PS(a.ps.ji, a.ps.ij)
            if isinstance(a, PS) and isinstance(b, LISTOF) and (a.ij, a.ji) == (b.ps.ij, b.ps.ji):
                return MAP(a, b.e_ij, b.e_ji)
        if d == "filter" and len(args) == 2 and args[0][0] == "closure":
            ps = self.ev(args[1])
            clo = CLOSURES.get((args[0][1], args[0][2]))
            if isinstance(ps, PS) and clo is not None and isinstance(clo.node, ast.Lambda):
                rel = lambda_pair_relation(clo.node)
                if rel is not None and self.diagonal:
                    keep = not lambda_pair_relation(clo.node, True)[1]      # i == j: kept only by a non-strict comparison
                    return PS(band(ps.ij, keep), band(ps.ji, keep))
                if rel is not None:
                    g = self.atom("g")     # i > j
                    keep_ij = g if rel == ">" else (not g)
                    keep_ji = (not g) if rel == ">" else g
                    return PS(band(ps.ij, keep_ij), band(ps.ji, keep_ji))
        if d in ("numpy.sum", "numpy.count_nonzero") and args:
            x = self.ev(args[0])
            if d == "numpy.count_nonzero" and isinstance(x, M):
                x = lift(lambda e: b2e(nzb(e)), x)            # counts the non-zero entries, whatever their value
            if isinstance(x, M):
                return CNT(x, axis_kind(args, kwargs, 1))
        if d in ("numpy.any", "numpy.all") and len(args) >= 1:
            x = self.ev(args[0])
            if isinstance(x, M):
                ak = axis_kind(args, kwargs, 1)
                nm_ = d.split(".")[-1]
                return CNT(x, nm_ if ak == "all" else "%s-%s" % (nm_, ak))
        if d in ("numpy.maximum", "numpy.minimum") and len(args) == 2:
            f = signs.smax if d.endswith("maximum") else signs.smin

            def g2(x, y):
                x = x if isinstance(x, E) else b2e(x)
                y = y if isinstance(y, E) else b2e(y)
                return E(f(x.sign, y.sign))
            return lift(g2, self.ev(args[0]), self.ev(args[1]))
        if d in ("numpy.triu", "numpy.tril") and args:
            x = self.ev(args[0])
            kk = dict(kwargs).get("k", args[1] if len(args) > 1 else ("const", 0))
            if isinstance(x, M) and "*" in x.d and is_const(kk) and isinstance(kk[1], int) and kk[1] in (0, 1, -1):
                a_, b_ = x.d["*"]
                zero = E(Z) if isinstance(a_, E) else False
                if self.diagonal:
                    keep = kk[1] == 0 or (d.endswith("triu") and kk[1] < 0) or (d.endswith("tril") and kk[1] > 0)
                    return M({"*": (a_ if keep else zero, b_ if keep else zero)})
                g = self.atom("g")        # i > j
                upper = d.endswith("triu")
                keep_ij = (not g) if upper else g
                keep_ji = g if upper else (not g)
                return M({"*": (a_ if keep_ij else zero, b_ if keep_ji else zero)})
        if d in ("numpy.abs", "numpy.absolute") and len(args) == 1:
            return lift(lambda e: E(P if signs.pos(e.sign) == N else e.sign), self.ev(args[0]))
        raise Inconclusive("PW: call %s outside the fragment" % d)

    def comp_over_index_pairs(self, t):
        """[(i, j) for (i, j) in itertools.combinations(range(p), 2) if cond(M[i, j], M[j, i])] and the same over itertools.product(range(p), repeat=2) /
        two nested `for`s: the generic pair {i, j} is visited as (i, j) and / or (j, i); condition and element are evaluated in each visited orientation"""
        _, kind, elt, gens = t
        mats = [k_ for k_, v_ in self.env.items() if isinstance(v_, M) and "*" in v_.d]

        def is_range_p(r_):
            return r_[0] == "ext" and r_[1] == "range" and len(r_[2]) == 1 and r_[2][0][0] == "ext" and r_[2][0][1] == "len" and r_[2][0][2][0] in mats
        mode = None
        if len(gens) == 1:
            it = gens[0][1]
            conds = list(gens[0][2])
            x, y = ("sub", ("elem", it), ("const", 0)), ("sub", ("elem", it), ("const", 1))
            if it[0] == "ext" and it[1] == "itertools.combinations" and len(it[2]) == 2 and is_const(it[2][1], 2) and is_range_p(it[2][0]) and not it[3]:
                mode = "combinations"
            elif it[0] == "ext" and it[1] == "itertools.product" and ((len(it[2]) == 1 and dict(it[3]).get("repeat") == ("const", 2) and is_range_p(it[2][0])) or
                                                                      (len(it[2]) == 2 and not it[3] and is_range_p(it[2][0]) and it[2][1] == it[2][0])):
                mode = "product"
                if len(it[2]) == 2:
                    x, y = ("elem", it[2][0]), ("elem", it[2][1])
        elif len(gens) == 2 and is_range_p(gens[0][1]) and gens[1][1] == gens[0][1] and not gens[0][2]:
            mode = "product-nested"          # the two loop variables range over the same term: their elements are not told apart by the term alone
            return None
        if mode is None:
            return None
        I_, J_ = ("$i",), ("$j",)

        def subst(u, a, b):
            if u == x:
                return a
            if u == y:
                return b
            return tuple(subst(z, a, b) for z in u) if isinstance(u, tuple) else u

        def truth(v):
            if isinstance(v, bool):
                return v
            if isinstance(v, E):
                return nzb(v)
            raise Inconclusive("PW: filter of a comprehension over index pairs is not a decided condition on the entries")
        out = {"ij": False, "ji": False}
        vals = {"ij": None, "ji": None}
        orientations = [(I_, J_, "A")] if self.diagonal else [(I_, J_, "A"), (J_, I_, "B")]
        for a, b, name in orientations:
            if self.diagonal:
                visited = mode != "combinations"
            elif mode == "combinations":
                g = self.atom("g")                         # i > j: combinations visits the pair as (smaller, larger)
                visited = (not g) if name == "A" else g
            else:
                visited = True
            if not visited:
                continue
            keep = True
            for c in conds:
                keep = band(keep, truth(self.ev(subst(c, a, b))))
            e_ = subst(elt[1] if kind == "dict" and elt[0] == "pair" else elt, a, b)
            if not (e_[0] == "tuple" and len(e_[1]) == 2 and set(e_[1]) == {I_, J_}):
                return None
            which = "ij" if tuple(e_[1]) == (I_, J_) else "ji"
            out[which] = bor(out[which], keep)
            if kind == "dict":
                v_ = self.ev(subst(elt[2], a, b))
                vals[which] = v_ if vals[which] is None else vals[which]
        if kind == "dict":
            return MAP(PS(out["ij"], out["ji"]), vals["ij"], vals["ji"])
        return PS(out["ij"], out["ji"])

    def t_comp(self, t):
        _, kind, elt, gens = t
        got = self.comp_over_index_pairs(t)
        if got is not None:
            return got

        def rowcol(it):
            # the spellings of (row, column) of the pair the generator stands at
            out = [(("sub", ("elem", it), ("const", 0)), ("sub", ("elem", it), ("const", 1)))]
            if it[0] == "ext" and it[1] == "zip" and len(it[2]) == 2 and not it[3]:
                out.append((("elem", it[2][0]), ("elem", it[2][1])))
            return out

        def entry_at_pair(u, it):
            # M[row, column] of the current pair -> the matrix term
            if u[0] == "sub" and u[2][0] == "tuple" and len(u[2][1]) == 2 and tuple(u[2][1]) in rowcol(it):
                return u[1]
            if u[0] == "sub" and u[2][0] == "tuple" and len(u[2][1]) == 2 and tuple(u[2][1])[::-1] in rowcol(it):
                return ("attr", u[1], "T")          # M[column, row] is the transposed matrix at the pair
            return None
        if len(gens) == 1 and not gens[0][2] and kind in ("list", "gen") and entry_at_pair(elt, gens[0][1]) is not None:
            it = gens[0][1]
            ps = self.ev(it)
            m = self.ev(entry_at_pair(elt, it))
            if isinstance(ps, PS) and isinstance(m, M) and "*" in m.d:
                return LISTOF(ps, m.d["*"][0], m.d["*"][1])
        if len(gens) == 1 and not gens[0][2] and kind == "dict" and elt[0] == "pair" and entry_at_pair(elt[2], gens[0][1]) is not None:
            # {(i, j): M[i, j] for (i, j) in pairs}
            it = gens[0][1]
            key_ok = elt[1] == ("elem", it) or (elt[1][0] == "tuple" and tuple(elt[1][1]) in rowcol(it))
            ps = self.ev(it)
            m = self.ev(entry_at_pair(elt[2], it))
            if key_ok and isinstance(ps, PS) and isinstance(m, M) and "*" in m.d:
                return MAP(ps, m.d["*"][0], m.d["*"][1])
        # {t for t in NODES if cond(t)}: a filtered node set.  The loop variable may occur only as a matrix index (A[x, t],
        # A[t, x]): the condition, with t replaced by ':', is a vector over the generic node
        if len(gens) == 1 and gens[0][2] and elt == ("elem", gens[0][1]) and kind in ("gen", "set", "list"):
            it = gens[0][1]
            base = self.ev(it)
            if isinstance(base, I):
                el = ("elem", it)

                def subst(u, inside_index=False):
                    if u == el:
                        if not inside_index:
                            raise Inconclusive("PW: the loop variable of a filtered node set is used as a value")
                        return FULL
                    if not isinstance(u, tuple):
                        return u
                    if u and u[0] == "sub" and len(u) == 3 and isinstance(u[2], tuple) and u[2][:1] == ("tuple",):
                        return ("sub", subst(u[1], False), ("tuple", tuple(subst(x, True) for x in u[2][1])))
                    return tuple(subst(x, False) for x in u)
                b = base.b
                for c in gens[0][2]:
                    v = self.ev(subst(c))
                    if isinstance(v, V):
                        b = band(b, v.e)
                    elif isinstance(v, bool):
                        b = band(b, v)
                    else:
                        raise Inconclusive("PW: filter of a node-set comprehension is not an entrywise condition")
                return I(b)
        raise Inconclusive("PW: comprehension %s" % fmt(t)[:80])


def axis_kind(args, kwargs, first):
    ax = dict(kwargs).get("axis")
    if ax is None and len(args) > first:
        ax = args[first]
    if ax is None:
        return "all"
    if is_const(ax, 0):
        return "axis0"
    if is_const(ax, 1):
        return "axis1"
    return "axis?"


class WHERE:
    def __init__(self, x, ps):
        self.x, self.ps = x, ps


class MASKED:
    def __init__(self, m, mask, idx_t):
        self.m, self.mask, self.idx_t = m, mask, idx_t


class ROWSEL:
    def __init__(self, m, sel):
        self.m, self.sel = m, sel


def lambda_pair_relation(lam, with_strict=False):
    """lambda e: e[0] > e[1]  ->  '>' ; e[0] < e[1] -> '<'   (optionally also whether the comparison is strict)"""
    if len(lam.args.args) != 1 or not isinstance(lam.body, ast.Compare) or len(lam.body.ops) != 1:
        return None
    e = lam.args.args[0].arg

    def comp(n):
        if isinstance(n, ast.Subscript) and isinstance(n.value, ast.Name) and n.value.id == e and isinstance(n.slice, ast.Constant):
            return n.slice.value
        return None
    l, r = comp(lam.body.left), comp(lam.body.comparators[0])
    op = type(lam.body.ops[0])
    strict = op in (ast.Gt, ast.Lt)
    rel = None
    if (l, r) == (0, 1):
        rel = {ast.Gt: ">", ast.GtE: ">", ast.Lt: "<", ast.LtE: "<"}.get(op)
    if (l, r) == (1, 0):
        rel = {ast.Gt: "<", ast.GtE: "<", ast.Lt: ">", ast.LtE: ">"}.get(op)
    if rel is None:
        return None
    return (rel, strict) if with_strict else rel


# ============================================================================ tables
def entry_of(sign, tag):
    return E(sign, tag)


def mat(pair, key="*"):
    return {key: (E(pair[0], "a"), E(pair[1], "b"))}


def term_of(prog, qname, inline_pkg="sempler.utils"):
    f = prog.func(qname)
    S = Sym(prog, inline=lambda g: g.public_module.name == inline_pkg)
    summ, _ = run_function(S, f)
    return f, S, T(summ.ret)


def node_table(prog, qname, node_params, mat_param, pairs=None):
    """table of an index-set valued function of node(s): {valuation -> membership of j}"""
    f, S, term = term_of(prog, qname)
    pairs = pairs or signs.PAIRS
    rows = {}
    for combo in itertools.product(pairs, repeat=len(node_params)):
        env = {("param", mat_param): M({n: (E(p[0], "a"), E(p[1], "b")) for n, p in zip(node_params, combo)})}
        for n in node_params:
            env[("param", n)] = NODE(n)
        r = Eval(env, {}).ev(term)
        if not isinstance(r, I):
            raise Inconclusive("%s does not evaluate to an index set" % qname, f.node)
        rows[combo] = r.b
    return f, rows


def matrix_table(prog, qname, mat_param, extra_env=None, atoms=(), pairs=None, term=None, f=None):
    """table of a matrix / pair-set / mapping valued function of one matrix"""
    if term is None:
        f, S, term = term_of(prog, qname)
    rows = {}
    pairs = pairs or signs.PAIRS
    for pair in pairs:
        for bits in itertools.product([True, False], repeat=len(atoms)):
            val = dict(zip(atoms, bits))
            env = {("param", mat_param): M(mat(pair))}
            if extra_env:
                env.update(extra_env)
            r = Eval(env, val).ev(term)
            rows[(pair,) + bits] = r
    return f, rows


def show(r):
    if isinstance(r, M):
        return {k: (repr(a), repr(b)) for k, (a, b) in r.d.items()}
    if isinstance(r, PS):
        return ("pairs", r.ij, r.ji)
    if isinstance(r, MAP):
        return ("map", r.ps.ij, repr(r.e_ij), r.ps.ji, repr(r.e_ji))
    if isinstance(r, I):
        return ("idx", r.b)
    if isinstance(r, CNT):
        return ("count", r.kind, show(r.m))
    return repr(r)


def A_(s):
    return s != Z


# ============================================================================ rules
NODE_ORACLES = {
    "pa": lambda a, b: (not a) and b,
    "ch": lambda a, b: a and (not b),
    "neighbors": lambda a, b: a and b,
    "adj": lambda a, b: a or b,
}


def where_of(f, construct=None):
    return {"file": f.module.relpath, "line": f.node.lineno, "function": f.qname, "construct": construct or ("def " + f.name)}


def rule_node_relations(prog, rep, names=("pa", "ch", "neighbors", "adj"), rule="PW.relation"):
    for name in names:
        q = "sempler.utils." + name
        try:
            f, rows = node_table(prog, q, ["i"], "A")
        except Inconclusive as e:
            rep.unk(rule, where_of(prog.func(q)), "%s left the elementwise fragment: %s" % (name, e.why))
            continue
        bad = []
        table = {}
        for (pair,), b in rows.items():
            exp = NODE_ORACLES[name](A_(pair[0]), A_(pair[1]))
            table["%s,%s" % pair] = b
            if b is not exp:
                bad.append((pair, b, exp))
        rep.tables[name] = table
        if bad:
            pair, got, exp = bad[0]
            rep.bad(rule, where_of(f), "j in %s(i) is %s but must be %s when (A[i,j], A[j,i]) = %s" % (name, got, exp, pair), detail=repr(bad))
        else:
            rep.ok(rule, where_of(f), "%s(i, A) equals its definition on all %d admissible entry pairs" % (name, len(rows)))


def rule_na(prog, rep, rule="PW.relation"):
    q = "sempler.utils.na"
    try:
        f, rows = node_table(prog, q, ["y", "x"], "A")
    except Inconclusive as e:
        rep.unk(rule, where_of(prog.func(q)), "na left the elementwise fragment: %s" % e.why)
        return
    bad = []
    for (py, px), b in rows.items():
        exp = (A_(py[0]) and A_(py[1])) and (A_(px[0]) or A_(px[1]))
        if b is not exp:
            bad.append((py, px, b, exp))
    if bad:
        rep.bad(rule, where_of(f), "na(y, x) differs from neighbors(y) & adj(x) at %s" % (bad[0],))
    else:
        rep.ok(rule, where_of(f), "na(y, x, A) = neighbors(y) ∩ adj(x) on all %d pair combinations" % len(rows))


def _keep(e, tag="a"):
    return isinstance(e, E) and e.tag == tag


def _zero(e):
    return isinstance(e, E) and e.sign == Z


def rule_decompositions(prog, rep, rule="PW.table"):
    # only_directed / only_undirected keep the original entries, and sum to the input
    res = {}
    for name, pred in (("only_directed", lambda a, b: a and not b), ("only_undirected", lambda a, b: a and b)):
        q = "sempler.utils." + name
        try:
            f, rows = matrix_table(prog, q, "P")
        except Inconclusive as e:
            rep.unk(rule, where_of(prog.func(q)), "%s left the elementwise fragment: %s" % (name, e.why))
            continue
        bad = []
        for (pair,), r in rows.items():
            if not isinstance(r, M):
                bad.append((pair, "not a matrix"))
                continue
            ij, ji = r.d["*"]
            for (e, me, other, tag) in ((ij, pair[0], pair[1], "a"), (ji, pair[1], pair[0], "b")):
                want_keep = pred(A_(me), A_(other))
                if want_keep and not _keep(e, tag):
                    bad.append((pair, repr(e), "must keep the original entry"))
                if not want_keep and not _zero(e):
                    bad.append((pair, repr(e), "must be 0"))
        res[name] = rows
        rep.tables[name] = {"%s,%s" % k[0]: show(v) for k, v in rows.items()}
        if bad:
            rep.bad(rule, where_of(f), "%s: entry for (A[i,j], A[j,i]) = %s is %s (%s)" % ((name,) + (bad[0] + ("",))[:3]), detail=repr(bad))
        else:
            rep.ok(rule, where_of(f), "%s keeps exactly the %s entries with their original values (8 pairs)" %
                   (name, "directed" if name == "only_directed" else "undirected"))
    if len(res) == 2:
        ok = True
        for k in res["only_directed"]:
            d, u = res["only_directed"][k], res["only_undirected"][k]
            if isinstance(d, M) and isinstance(u, M):
                for x, y in zip(d.d["*"], u.d["*"]):
                    # exactly one of the two carries the entry, or both are zero where the entry is zero
                    keeps = [_keep(x, "a") or _keep(x, "b"), _keep(y, "a") or _keep(y, "b")]
                    if sum(keeps) > 1 or (sum(keeps) == 0 and not (_zero(x) and _zero(y))):
                        ok = False
        f = prog.func("sempler.utils.only_directed")
        rep.check(rule + ".sum", ok, where_of(f), "only_directed + only_undirected = input, entrywise",
                  "only_directed + only_undirected differs from the input on some admissible pair")
    # skeleton
    q = "sempler.utils.skeleton"
    try:
        f, rows = matrix_table(prog, q, "A")
        bad = []
        for (pair,), r in rows.items():
            ij, ji = r.d["*"]
            want = A_(pair[0]) or A_(pair[1])
            for e in (ij, ji):
                if not isinstance(e, E) or e.sign != (ONE if want else Z):
                    bad.append((pair, repr(e), want))
        rep.tables["skeleton"] = {"%s,%s" % k[0]: show(v) for k, v in rows.items()}
        if bad:
            rep.bad(rule, where_of(f), "skeleton entry for pair %s is %s, must be %s" % (bad[0][0], bad[0][1], int(bad[0][2])), detail=repr(bad))
        else:
            rep.ok(rule, where_of(f), "skeleton is the symmetric 0/1 adjacency (a != 0 or b != 0) on all 8 pairs")
    except Inconclusive as e:
        rep.unk(rule, where_of(prog.func(q)), "skeleton left the elementwise fragment: %s" % e.why)
    # edge lists
    q = "sempler.utils.directed_edges"
    try:
        try:
            f, rows = matrix_table(prog, q, "A")
        except Inconclusive as e0:
            if "atom g" not in str(e0.why):
                raise
            f, rows = matrix_table(prog, q, "A", atoms=("g",))       # built from a list that depends on i > j: both cases
        bad = []
        for key_, r in rows.items():
            pair = key_[0]
            def tb(x):
                return x if isinstance(x, bool) or x is None else (signs.nonzero(x) if isinstance(x, str) else nzb(x))
            if not isinstance(r, PS) or tb(r.ij) is not (A_(pair[0]) and not A_(pair[1])) or tb(r.ji) is not (A_(pair[1]) and not A_(pair[0])):
                bad.append((pair, show(r)))
        if bad:
            rep.bad(rule, where_of(f), "directed_edges membership wrong for pair %s: %s" % bad[0])
        else:
            rep.ok(rule, where_of(f), "directed_edges = {(i, j) | a != 0 and b == 0}, each once")
    except Inconclusive as e:
        rep.unk(rule, where_of(prog.func(q)), "directed_edges left the fragment: %s" % e.why)
    q = "sempler.utils.undirected_edges"
    try:
        f, rows = matrix_table(prog, q, "P", atoms=("g",))
        bad = []
        for (pair, g), r in rows.items():
            und = A_(pair[0]) and A_(pair[1])
            if not isinstance(r, PS):
                bad.append((pair, g, show(r)))
                continue
            n_in = int(r.ij is True) + int(r.ji is True)
            if r.ij is None or r.ji is None or n_in != (1 if und else 0):
                bad.append((pair, g, show(r)))
        if bad:
            rep.bad(rule, where_of(f), "undirected_edges must list each undirected edge exactly once; pair %s with i>j=%s gives %s" % bad[0])
        else:
            rep.ok(rule, where_of(f), "undirected_edges lists exactly one of (i, j), (j, i) per undirected edge (16 valuations)")
    except Inconclusive as e:
        rep.unk(rule, where_of(prog.func(q)), "undirected_edges left the fragment: %s" % e.why)
    q = "sempler.utils.edge_weights"
    try:
        try:
            f, rows = matrix_table(prog, q, "W")
        except Inconclusive as e0:
            if "atom g" not in str(e0.why):
                raise
            f, rows = matrix_table(prog, q, "W", atoms=("g",))       # the key list depends on i > j: both cases
        bad = []
        for key_, r in rows.items():
            pair = key_[0]
            if not isinstance(r, MAP) or r.ps.ij is not A_(pair[0]) or r.ps.ji is not A_(pair[1]) or not _keep(r.e_ij, "a") \
                    or not _keep(r.e_ji, "b"):
                bad.append((pair, show(r)))
        if bad:
            rep.bad(rule, where_of(f), "edge_weights must map exactly the non-zero entries to their values; pair %s gives %s" % bad[0])
        else:
            rep.ok(rule, where_of(f), "edge_weights = {(i, j): a | a != 0}")
    except Inconclusive as e:
        rep.unk(rule, where_of(prog.func(q)), "edge_weights left the fragment: %s" % e.why)
    # induced_subgraph
    q = "sempler.utils.induced_subgraph"
    try:
        f, rows = matrix_table(prog, q, "G", extra_env={("param", "S"): SUBSET("S")}, atoms=("si", "sj"))
        bad = []
        for (pair, si, sj), r in rows.items():
            ij, ji = r.d["*"]
            if si and sj:
                if not (_keep(ij, "a") and _keep(ji, "b")):
                    bad.append((pair, si, sj, show(r)))
            elif not (_zero(ij) and _zero(ji)):
                bad.append((pair, si, sj, show(r)))
        if bad:
            rep.bad(rule, where_of(f), "induced_subgraph: pair %s with i∈S=%s, j∈S=%s gives %s" % bad[0])
        else:
            rep.ok(rule, where_of(f), "induced_subgraph keeps exactly the entries with both endpoints in S (32 valuations)")
    except Inconclusive as e:
        rep.unk(rule, where_of(prog.func(q)), "induced_subgraph left the fragment: %s" % e.why)


def _adj_indicator(m, pair):
    ij, ji = m.d["*"]
    want = A_(pair[0]) or A_(pair[1])
    return all(isinstance(e, (E, bool)) and nzb(e) is want and (isinstance(e, bool) or e.sign in (Z, ONE)) for e in (ij, ji))


def rule_counts(prog, rep, rule="PW.count"):
    """is_clique / is_complete / degrees: counting identities over the skeleton indicator"""
    from .pred import poly, pkey, padd, pconst, pmul, pfmt
    from fractions import Fraction
    # is_complete: half the ordered count == p(p-1)/2
    for name, mp, nterm in (("is_complete", "P", lambda: ("ext", "len", (("param", "P"),), ())),
                            ("is_clique", "A", None)):
        q = "sempler.utils." + name
        f, S, term = term_of(prog, q)
        try:
            # `set(v) == {c}` says "v is non-empty and all its entries are c": for the empty node set it is False, although the empty
            # set is vacuously a clique / complete
            if term[0] == "cmp" and term[1] == "==" and any(x[0] == "ext" and x[1] in ("set", "frozenset") for x in (term[2], term[3])) and \
                    any(x[0] == "set" and len(x[1]) == 1 for x in (term[2], term[3])):
                rep.bad(rule, where_of(f), "%s compares the *set* of per-node values with a one-element set: for an empty node set that is set() == {c}, False, "
                        "although the empty set is vacuously a clique (the count form gives 0 == 0)" % name)
                continue
            if term[0] != "cmp" or term[1] != "==":
                raise Inconclusive("result is not an equality of a count with a closed form")
            sides = [term[2], term[3]]
            cnt_side = None
            for k, s in enumerate(sides):
                if any(isinstance(x, tuple) and x[:1] == ("param",) and x[1] == mp for x in walk(s)) and \
                        any(isinstance(x, tuple) and x[0] in ("method", "ext") and any(w_ in (x[2] if x[0] == "method" else x[1]) for w_ in ("sum", "count_nonzero")) for x in walk(s)):
                    cnt_side = k
            if cnt_side is None:
                raise Inconclusive("no counted side found")
            cs, other = sides[cnt_side], sides[1 - cnt_side]
            # strip a division by a constant on the count side: (count / c)
            scale = 1
            if cs[0] == "binop" and cs[1] == "/" and is_const(cs[3]):
                scale = cs[3][1]
                cs = cs[2]
            env_extra = {("param", "S"): SUBSET("S")} if name == "is_clique" else None
            ok = True
            K = None
            why = ""
            for pair in signs.PAIRS:
                for g in (True, False):
                    env = {("param", mp): M(mat(pair))}
                    if env_extra:
                        env.update(env_extra)
                    r = Eval(env, {"g": g}).ev(cs)
                    if not isinstance(r, CNT) or r.kind != "all":
                        ok = False
                        why = "the counted quantity is not a sum over the whole (sub)matrix"
                        break
                    ij, ji = r.m.d["*"]
                    cnt = 0
                    for e in (ij, ji):
                        v = nzb(e)
                        if v is None or (isinstance(e, E) and e.sign not in (Z, ONE)):
                            ok = False
                            why = "counted entries are not 0/1 indicators"
                        cnt += 1 if v else 0
                    adjacent = A_(pair[0]) or A_(pair[1])
                    if adjacent:
                        if K is None:
                            K = cnt
                        if cnt != K or cnt == 0:
                            ok = False
                            why = "an adjacent pair with entries %s contributes %d to the count, another contributes %d" % (pair, cnt, K)
                    elif cnt != 0:
                        ok = False
                        why = "a non-adjacent pair contributes to the count"
                # the diagonal must not be counted
                denv = {("param", mp): M({"*": (E(Z, "a"), E(Z, "a"))})}
                denv.update(env_extra or {})
                d0 = Eval(denv, {"g": True}, diagonal=True).ev(cs)
                if isinstance(d0, CNT) and any(nzb(e) for e in d0.m.d["*"]):
                    ok = False
                    why = "the diagonal is counted"
            n = ("ext", "len", (("param", "P"),), ()) if name == "is_complete" else None
            po = poly(other)
            atoms_ = {a for m_ in po for a in m_}
            if len(atoms_) != 1:
                raise Inconclusive("closed form has %d size atoms" % len(atoms_))
            nat = next(iter(atoms_))
            natp = {(nat,): 1}
            K = K or 2
            want = {m_: c * Fraction(K, 2) / scale for m_, c in pmul(natp, padd(natp, pconst(1), -1)).items()}
            size_ok = (nat == n) if n is not None else (nat[0] == "ext" and nat[1] == "len")
            rep.check(rule, ok and pkey(po) == pkey(want) and size_ok, where_of(f),
                      "%s compares the count of adjacent pairs (%s per unordered pair, ÷%s) with the closed form for n(n-1)/2 pairs" % (name, K, scale),
                      "%s: counted indicator or closed form differs from `every unordered pair adjacent`: %s" % (name, why or "closed form %s" % pfmt(po)))
        except Inconclusive as e:
            rep.unk(rule, where_of(f), "%s left the counting fragment: %s" % (name, e.why))
    q = "sempler.utils.degrees"
    f, S, term = term_of(prog, q)
    try:
        ok = True
        for pair in signs.PAIRS:
            r = Eval({("param", "A"): M(mat(pair))}, {}).ev(term)
            if not isinstance(r, CNT) or r.kind not in ("axis0", "axis1") or not _adj_indicator(r.m, pair):
                ok = False
        rep.check(rule, ok, where_of(f), "degrees sums the symmetric 0/1 adjacency indicator along one axis",
                  "degrees does not sum the adjacency indicator")
    except Inconclusive as e:
        rep.unk(rule, where_of(f), "degrees left the counting fragment: %s" % e.why)


ALL9 = [(a, b) for a in (Z, P, N) for b in (Z, P, N)]


def _contrib(v):
    """(nonzero?, may be negative / unknown?) of one entry / membership"""
    if isinstance(v, bool) or v is None:
        return v, v is None
    s = v.sign
    return signs.nonzero(s), s in (N, TOP)


def precheck_coverage(prog):
    """C03: which inputs does the pre-check of topological_ordering reject, before Kahn's loop?
    -> dict(node, pairs=bool, diag=bool, false_rejections=[...], why=str)
    pairs: every two-cycle (a != 0 and b != 0, any signs) is rejected; diag: every self-loop is rejected."""
    from .pred import npred
    q = "sempler.utils.topological_ordering"
    f = prog.func(q)
    S = Sym(prog, inline=lambda g: g.public_module.name == "sempler.utils" and g.qname != q)
    run_function(S, f)
    raises = [r for r in S.select("raise", root=q) if r.exctype == "ValueError" and len(r.path) == 1 and r.path[0][1] is True and not r.loops
              and r.qname in (q,) + tuple(x.qname for x in S.facts if x.root == q and x.qname.rsplit(".", 1)[-1].startswith("_"))]
    best = {"node": None, "pairs": False, "diag": False, "false_rejections": [], "why": "no pre-check found"}
    for r in raises:
        pn = npred(r.path[0][0], True)
        inner = None
        if pn[0] in (">0", "!=0", ">=0"):
            pd = dict(pn[1])
            const = pd.pop((), 0)
            if len(pd) == 1:
                (mono, coef), = pd.items()
                if len(mono) == 1 and coef == 1 and ((pn[0] in (">0", "!=0") and const == 0) or (pn[0] == ">=0" and const == -1)):
                    inner = mono[0]
        elif pn[0] == "atom" and pn[2] is True:
            inner = pn[1]
        elif pn[0] == "nonempty":
            inner = pn[1]
        if inner is None:
            continue
        if isinstance(inner, tuple) and inner[0] == "ext" and inner[1] == "len" and len(inner[2]) == 1:
            inner = inner[2][0]
        cov = {"node": r.node, "pairs": True, "diag": True, "false_rejections": [], "why": ""}
        try:
            for diag in (False, True):
                cases = [(s_, s_) for s_ in (Z, P, N)] if diag else ALL9
                for (a_, b_) in cases:
                    want = (a_ != Z) if diag else (a_ != Z and b_ != Z)
                    hits = []
                    for g in ((True,) if diag else (True, False)):
                        e1 = E(a_, "a")
                        env = {("param", "A"): M({"*": (e1, e1) if diag else (e1, E(b_, "b"))})}
                        v = Eval(env, {"g": g}, diagonal=diag).ev(inner)
                        if isinstance(v, CNT) and v.kind in ("all", "any"):
                            parts = list(v.m.d["*"])
                        elif isinstance(v, PS):
                            parts = [v.ij, v.ji]
                        elif isinstance(v, WHERE) and v.ps is not None:
                            parts = [v.ps.ij, v.ps.ji]
                        else:
                            raise Inconclusive("condition is not a sum / any / emptiness test over the whole matrix")
                        nz = [_contrib(p_) for p_ in parts]
                        if any(neg for _, neg in nz):
                            hits.append(None)         # may cancel
                        else:
                            hits.append(any(x is True for x, _ in nz))
                    hit = None if any(h is None for h in hits) else all(hits)
                    if want and hit is not True:
                        cov["diag" if diag else "pairs"] = False
                        cov["why"] += "%s (%s,%s) is not counted; " % ("self-loop" if diag else "two-cycle", a_, b_)
                    # a pattern that must be accepted is rejected as soon as the test fires for *one* placement (i > j or i < j)
                    if not want and not all(h is False for h in hits):
                        cov["false_rejections"].append(("diagonal " if diag else "") + "%s,%s" % (a_, b_))
        except Inconclusive as e:
            cov = {"node": r.node, "pairs": False, "diag": False, "false_rejections": [], "why": e.why}
        if (cov["pairs"], cov["diag"]) >= (best["pairs"], best["diag"]) or best["node"] is None:
            best = cov
    return f, best
