"""PATTERN - zero-pattern non-interference (DESIGN.md 3.2).

Question decided: does what a function computes from a weight matrix depend on the weights
only through which entries are non-zero?  Lattice CLEAN < PAT < RAW < ARITH.
"""
import ast

from . import api, signs
from .core import (Interp, TupleV, Closure, FuncRef, ClassRef, ExtRef, ObjV, BoundMethod, SuperV, SliceV, GENERIC)
from .loader import Inconclusive, norm, where, dotted_of

CLEAN, PAT, RAW, ARITH = 0, 1, 2, 3
NAMES = ["CLEAN", "PAT", "RAW", "ARITH"]


class PV:
    """level + provenance (where ARITH was created) + optional pointwise form + refinements"""
    __slots__ = ("lvl", "prov", "pw", "half", "ref", "const", "vs", "tag")

    def __init__(self, lvl=CLEAN, prov=frozenset(), pw=None, half=None, ref=frozenset(), const=None, vs=False):
        self.lvl, self.prov, self.pw, self.half, self.ref, self.const = lvl, prov, pw, half, ref, const
        self.vs = vs          # the *shape / length* of the value depends on weight values (np.where, masks, filters)
        self.tag = None       # parameters bound to one and the same variable of the caller carry the same tag (they hold the same value)

    def __repr__(self):
        return NAMES[self.lvl] + ("~pw" if self.pw is not None else "")

    def key(self):
        return (self.lvl, self.prov, self.pw, self.half, self.ref, repr(self.const), self.vs, self.tag)


NOCONST = object()


def lvl_of(v):
    if isinstance(v, PV):
        return v.lvl
    if isinstance(v, TupleV):
        return max([lvl_of(x) for x in v.items] or [CLEAN])
    if isinstance(v, SliceV):
        return max([lvl_of(x) for x in (v.lower, v.upper, v.step) if x is not None] or [CLEAN])
    if isinstance(v, ObjV):
        return max([lvl_of(x) for x in v.attrs.values()] or [CLEAN])
    return CLEAN


def prov_of(v):
    if isinstance(v, PV):
        return v.prov
    if isinstance(v, TupleV):
        r = frozenset()
        for x in v.items:
            r |= prov_of(x)
        return r
    if isinstance(v, SliceV):
        r = frozenset()
        for x in (v.lower, v.upper, v.step):
            if x is not None:
                r |= prov_of(x)
        return r
    if isinstance(v, ObjV):
        r = frozenset()
        for x in v.attrs.values():
            r |= prov_of(x)
        return r
    return frozenset()


def vs_of(v):
    if isinstance(v, PV):
        return v.vs
    if isinstance(v, TupleV):
        return any(vs_of(x) for x in v.items)
    if isinstance(v, ObjV):
        return any(vs_of(x) for x in v.attrs.values())
    return False


COLLAPSED = []      # objects whose attributes of different levels were collapsed into one level: from there on a level is an over-approximation


def flat(v):
    """collapse any value to a PV"""
    if isinstance(v, PV):
        return v
    if isinstance(v, ObjV) and v.attrs:
        lv = {lvl_of(x) for x in v.attrs.values()}
        if len(lv) > 1 and max(lv) >= RAW:
            COLLAPSED.append(getattr(v, "cls", None))
            # the marker travels with the provenance of whatever is computed from the collapsed value
            return PV(lvl_of(v), prov_of(v) | {("$collapsed", 0, str(getattr(v, "cls", "?")), "")}, vs=vs_of(v))
    return PV(lvl_of(v), prov_of(v), vs=vs_of(v))


class Pattern(Interp):
    name = "PATTERN"
    SELF_COPY_NOOP = True
    # frozen exception (DESIGN.md 3.2): the chain-shortcut dispatch compares values
    EXEMPT_FUNCS = {"sempler.utils.is_chain_graph": "value test that only selects the chain shortcut; a weighted chain "
                                                    "takes the general path (undecided clause of C07/C10)"}

    def __init__(self, prog):
        super().__init__(prog)
        self.EXEMPT_FUNCS = dict(self.EXEMPT_FUNCS) if chain_test_is_exact(prog) else {}
        self.violations = {}     # (qname, construct) -> dict
        self.declass = set()     # declassification sites seen
        self.unknown = []        # unmodelled calls met with raw data
        self.exempted = {}
        self._matid = 0

    # ------------------------------------------------------------------ helpers
    def fresh_matrix(self):
        self._matid += 1
        return PV(RAW, pw=("m", self._matid, "a"))

    def jn(self, *vs):
        vs = [flat(v) for v in vs if v is not None]
        if not vs:
            return PV()
        l = max(v.lvl for v in vs)
        p = frozenset().union(*[v.prov for v in vs])
        return PV(l, p, vs=any(v.vs for v in vs))

    def arith(self, n, ctx, *vs):
        p = frozenset().union(*[prov_of(v) for v in vs])
        if p and any(lvl_of(v) == ARITH for v in vs):
            return PV(ARITH, p, vs=any(vs_of(v) for v in vs))            # already tainted: keep the root expression(s) only
        site = (ctx.qname, getattr(n, "lineno", 0), norm(n)[:160], ctx.func.module.relpath if ctx.func else "?")
        return PV(ARITH, p | {site})

    def cap(self, v, top=PAT):
        v = flat(v)
        return PV(min(v.lvl, top), v.prov) if v.lvl < ARITH else v

    def truth(self, v, n, ctx):
        v = flat(v)
        if v.lvl == RAW:
            self.declass.add((ctx.qname, norm(n)[:120]))
            return PV(PAT, v.prov, ref=v.ref)
        return v

    @staticmethod
    def _zero_guard_skips_noops(n, ctx):
        """`if v == 0: return / continue` (or `if v != 0: BODY`) where everything that is skipped is `X += e` / `X -= e` with the tested name v a
        factor of the product e: the skipped updates add v * (...) = 0, so both ways through the branch compute the same values"""
        if ctx.func is None:
            return False
        v, when_zero = None, None
        if isinstance(n, ast.Compare) and len(n.ops) == 1 and isinstance(n.ops[0], (ast.Eq, ast.NotEq)):
            a, b = n.left, n.comparators[0]
            if isinstance(a, ast.Constant):
                a, b = b, a
            if isinstance(a, ast.Name) and isinstance(b, ast.Constant) and b.value == 0 and not isinstance(b.value, bool):
                v, when_zero = a.id, isinstance(n.ops[0], ast.Eq)
        else:
            # `not v.any()` / `not np.any(v)`: the array v is zero everywhere
            neg, e = False, n
            while isinstance(e, ast.UnaryOp) and isinstance(e.op, ast.Not):
                neg, e = not neg, e.operand
            if isinstance(e, ast.Call) and not e.keywords:
                if isinstance(e.func, ast.Attribute) and e.func.attr == "any" and isinstance(e.func.value, ast.Name) and not e.args:
                    v, when_zero = e.func.value.id, neg
                elif (dotted_of(e.func) or "") in ("np.any", "numpy.any") and len(e.args) == 1 and isinstance(e.args[0], ast.Name):
                    v, when_zero = e.args[0].id, neg
        if v is None:
            return False

        def factor(e):
            if isinstance(e, ast.Name):
                return e.id == v
            if isinstance(e, ast.BinOp) and isinstance(e.op, (ast.Mult, ast.MatMult)):
                return factor(e.left) or factor(e.right)
            if isinstance(e, ast.UnaryOp) and isinstance(e.op, ast.USub):
                return factor(e.operand)
            if isinstance(e, ast.Call) and (dotted_of(e.func) or "") in ("np.outer", "numpy.outer", "np.dot", "numpy.dot", "np.multiply", "numpy.multiply") and len(e.args) == 2:
                return factor(e.args[0]) or factor(e.args[1])
            return False

        def noop(st):
            return isinstance(st, ast.AugAssign) and isinstance(st.op, (ast.Add, ast.Sub)) and factor(st.value)

        def keeps_zero(st):
            # v = v @ B / v = B * v: zero stays zero
            return isinstance(st, ast.Assign) and len(st.targets) == 1 and isinstance(st.targets[0], ast.Name) and st.targets[0].id == v and factor(st.value)

        def noops(stmts):
            return bool(stmts) and all(noop(st) for st in stmts)
        for blk_owner in ast.walk(ctx.func.node):
            for fld in ("body", "orelse"):
                blk = getattr(blk_owner, fld, None)
                if not isinstance(blk, list):
                    continue
                for k_, st in enumerate(blk):
                    if isinstance(st, ast.If) and st.test is n and not st.orelse:
                        if not when_zero:
                            return noops(st.body)
                        if len(st.body) == 1 and isinstance(st.body[0], ast.Return) and st.body[0].value is None and isinstance(blk_owner, ast.FunctionDef):
                            return noops(blk[k_ + 1:])
                        if len(st.body) == 1 and isinstance(st.body[0], ast.Continue) and isinstance(blk_owner, (ast.For, ast.While)) and fld == "body":
                            return noops(blk[k_ + 1:])
                        if len(st.body) == 1 and isinstance(st.body[0], ast.Break) and isinstance(blk_owner, ast.For) and fld == "body" and not blk_owner.orelse:
                            # leaving the loop: every later round would only add multiples of v (zero) and keep v zero - by induction nothing changes any more
                            others = [x for x in blk if x is not st and not (isinstance(x, ast.Expr) and isinstance(x.value, ast.Constant))]
                            return bool(others) and all(noop(x) or keeps_zero(x) for x in others)
                        return False
        return False

    def sink(self, v, n, ctx, kind):
        v = flat(v)
        if v.lvl != ARITH:
            return
        if kind == "if condition" and self._zero_guard_skips_noops(n, ctx):
            self.exempted[(ctx.qname, norm(n)[:80])] = "the branch only skips updates that add a multiple of the tested quantity (zero there): both ways compute the same values"
            return
        through_object = any(p_[0] == "$collapsed" for p_ in v.prov)
        real = {p_ for p_ in v.prov if p_[0] != "$collapsed"}
        for (q, line, text, rel) in (real or {(ctx.qname, getattr(n, "lineno", 0), norm(n)[:160],
                                               ctx.func.module.relpath if ctx.func else "?")}):
            if q in self.EXEMPT_FUNCS:
                self.exempted[(q, text)] = self.EXEMPT_FUNCS[q]
                continue
            k = (q, text)
            d = self.violations.setdefault(k, {"function": q, "line": line, "construct": text, "file": rel, "sinks": [], "approx": True})
            d["approx"] = d["approx"] and through_object          # over-approximate only if every way it reaches a decision went through a collapsed object
            s = "%s in %s: %s" % (kind, ctx.qname, norm(n)[:80])
            if s not in d["sinks"] and len(d["sinks"]) < 6:
                d["sinks"].append(s)

    def pw_of(self, v):
        return v.pw if isinstance(v, PV) else None

    @staticmethod
    def pw_tree(pw):
        """('m', id, tree) -> tree"""
        return pw[2]

    def pw_combine(self, op, l, r):
        """elementwise combination of two pointwise forms over the same matrix"""
        lp, rp = self.pw_of(l), self.pw_of(r)
        lt = rt = None
        mid = None
        if lp is not None:
            mid, lt = lp[1], lp[2]
        elif isinstance(l, PV) and l.lvl <= PAT and l.const is not None and isinstance(l.const, (int, float)):
            lt = ("c", signs.const_sign(l.const))
        if rp is not None:
            if mid is not None and rp[1] != mid:
                return None
            mid, rt = rp[1], rp[2]
        elif isinstance(r, PV) and r.lvl <= PAT and r.const is not None and isinstance(r.const, (int, float)):
            rt = ("c", signs.const_sign(r.const))
        if mid is None or lt is None or rt is None:
            return None
        return ("m", mid, (op, lt, rt))

    # ------------------------------------------------------------------ hooks
    def h_const(self, n, ctx):
        return PV(CLEAN, const=n.value if not isinstance(n.value, str) else NOCONST)

    def h_unbound(self, name, n, ctx):
        return PV()

    def h_seq(self, kind, vals, n, ctx):
        if kind == "tuple":
            return TupleV(vals)
        return self.jn(*vals)

    def h_dict(self, keys, vals, n, ctx):
        return self.jn(*[k for k in keys if k is not None], *vals)

    def h_attr(self, v, attr, n, env, ctx):
        if isinstance(v, ObjV):
            return PV()
        v = flat(v) if not isinstance(v, PV) else v
        if attr == "T":
            pw = v.pw
            if pw is not None:
                pw = ("m", pw[1], signs.swap(pw[2]))
            return PV(v.lvl, v.prov, pw=pw)
        if attr in api.CLEAN_ATTRS:
            return PV()
        return PV(v.lvl, v.prov)

    def h_slice(self, lo, up, st, n, ctx):
        return SliceV(lo, up, st)

    @staticmethod
    def _is_full_slice(x):
        return isinstance(x, SliceV) and x.lower is None and x.upper is None and x.step is None

    def h_subscript(self, base, idx, n, env, ctx):
        self.sink(flat(idx), n.slice, ctx, "subscript index")
        if isinstance(base, TupleV):
            if isinstance(idx, PV) and isinstance(idx.const, int) and -len(base.items) <= idx.const < len(base.items):
                return base.items[idx.const]
            return self.jn(*base.items, self.cap(idx))
        b = flat(base) if not isinstance(base, PV) else base
        i = flat(idx)
        res = PV(max(b.lvl, min(i.lvl, PAT)) if b.lvl < ARITH else ARITH, b.prov | i.prov, vs=b.vs or i.lvl == ARITH)
        if i.lvl == ARITH:
            res = PV(ARITH, b.prov | i.prov, vs=True)
        # X[S][:, S]: a missing trailing index is a full slice
        if not isinstance(idx, (TupleV, SliceV)) and b.pw is not None and b.pw[2] == "a" and not isinstance(n.slice, (ast.Tuple, ast.Slice)) and \
                not (isinstance(idx, PV) and isinstance(idx.const, int) and not isinstance(idx.const, bool)):
            res.half = (b.pw[1], "r", norm(n.slice), getattr(idx, "tag", None))
        # principal sub-matrix idiom  X[S, :][:, S]  keeps the (a, b) pair structure
        if isinstance(idx, TupleV) and len(idx.items) == 2 and isinstance(n.slice, ast.Tuple):
            r, c = idx.items
            rn, cn = n.slice.elts
            if b.pw is not None and b.pw[2] == "a" and self._is_full_slice(c) and not self._is_full_slice(r):
                res.half = (b.pw[1], "r", norm(rn), getattr(r, "tag", None))
            elif b.pw is not None and b.pw[2] == "a" and self._is_full_slice(r) and not self._is_full_slice(c):
                res.half = (b.pw[1], "c", norm(cn), getattr(c, "tag", None))
            elif b.half is not None:
                mid, side, txt, tag = b.half
                # the same index on the other axis: the same expression, or two parameters that the caller bound to one variable
                same = lambda node, val: norm(node) == txt or (tag is not None and getattr(val, "tag", None) == tag)
                if side == "r" and self._is_full_slice(r) and same(cn, c):
                    res.pw = ("m", mid, "a")
                elif side == "c" and self._is_full_slice(c) and same(rn, r):
                    res.pw = ("m", mid, "a")
        return res

    def h_unary(self, op, v, n, ctx):
        v = flat(v) if not isinstance(v, PV) else v
        if isinstance(op, ast.Not):
            if v.lvl == CLEAN and isinstance(v.const, bool):
                return PV(CLEAN, const=not v.const)
            t = self.truth(v, n, ctx)
            return PV(t.lvl, t.prov, ref=frozenset((nm, not pol) for nm, pol in v.ref))
        if isinstance(op, ast.USub):
            if v.pw is not None:
                return PV(v.lvl, v.prov, pw=("m", v.pw[1], ("neg", v.pw[2])))
            if v.lvl >= RAW:
                return PV(v.lvl, v.prov)     # negation keeps the zero pattern
            c = -v.const if isinstance(v.const, (int, float)) and not isinstance(v.const, bool) else None
            return PV(v.lvl, v.prov, const=c)
        if isinstance(op, ast.Invert):
            return self.truth(v, n, ctx) if v.lvl == RAW else v
        return v

    def h_boolop(self, op, vals, n, ctx):
        ts = [self.truth(flat(v), n, ctx) if lvl_of(v) == RAW else flat(v) for v in vals]
        r = self.jn(*ts)
        if isinstance(op, ast.And):
            ref = frozenset(x for v in vals if isinstance(v, PV) for x in v.ref if x[1] is True)
        else:
            ref = frozenset(x for v in vals if isinstance(v, PV) for x in v.ref if x[1] is False)
        return PV(r.lvl, r.prov, ref=ref)

    def h_binop(self, op, l, r, n, ctx):
        if isinstance(l, PV) and isinstance(l.const, str) or (isinstance(l, PV) and l.const is NOCONST and isinstance(op, ast.Mod)):
            return PV()           # message formatting
        lf, rf = flat(l), flat(r)
        if isinstance(op, (ast.BitAnd, ast.BitOr, ast.BitXor)):
            # set algebra / boolean masks
            a = self.truth(lf, n, ctx) if lf.lvl == RAW else lf
            b = self.truth(rf, n, ctx) if rf.lvl == RAW else rf
            return self.jn(a, b)
        if max(lf.lvl, rf.lvl) >= RAW:
            opn = {ast.Add: "+", ast.Sub: "-", ast.Mult: "*"}.get(type(op))
            pw = self.pw_combine(opn, l, r) if opn else None
            res = self.arith(n, ctx, lf, rf)
            res.pw = pw
            return res
        res = self.jn(lf, rf)
        if isinstance(l, PV) and isinstance(r, PV) and isinstance(l.const, (int, float)) and isinstance(r.const, (int, float)) \
                and not isinstance(l.const, bool) and not isinstance(r.const, bool):
            try:
                res.const = {ast.Add: lambda a, b: a + b, ast.Sub: lambda a, b: a - b,
                             ast.Mult: lambda a, b: a * b}.get(type(op), lambda a, b: None)(l.const, r.const)
            except Exception:
                res.const = None
        return res

    def h_compare(self, ops, vals, n, ctx):
        fl = [flat(v) for v in vals]
        j = self.jn(*fl)
        if j.lvl < RAW:
            return j
        if len(ops) == 1 and isinstance(ops[0], (ast.Eq, ast.NotEq)) and not getattr(self, "strict_values", False):
            a, b = vals
            other = None
            if isinstance(b, PV) and b.lvl == CLEAN and b.const is not NOCONST and b.const is not None and b.const == 0:
                subj, other = a, b
            elif isinstance(a, PV) and a.lvl == CLEAN and a.const is not NOCONST and a.const is not None and a.const == 0:
                subj, other = b, a
            if other is not None:
                s = flat(subj) if not isinstance(subj, PV) else subj
                if s.lvl == RAW:
                    self.declass.add((ctx.qname, norm(n)[:120]))
                    return PV(PAT, s.prov)
                if s.lvl == ARITH and s.pw is not None:
                    ok, wit = signs.pattern_only(s.pw[2], getattr(self, 'pairs', None))
                    if ok:
                        self.declass.add((ctx.qname, norm(n)[:120]))
                        # provenance created by the elementwise expression itself is discharged
                        return PV(PAT, frozenset(p for p in s.prov if not self._within(p, n, ctx)))
        if len(ops) == 1 and isinstance(ops[0], (ast.Gt, ast.Lt)) and not getattr(self, "strict_values", False):
            # |x| > 0 (0 < |x|) is x != 0: an ordered comparison that still reads only the zero pattern
            a, b = vals if isinstance(ops[0], ast.Gt) else (vals[1], vals[0])
            if isinstance(b, PV) and b.lvl == CLEAN and b.const is not NOCONST and b.const is not None and b.const == 0 and not isinstance(b.const, bool):
                s = flat(a) if not isinstance(a, PV) else a
                if s.pw is not None and isinstance(s.pw[2], tuple) and s.pw[2][0] == "abs":
                    ok, wit = signs.pattern_only(s.pw[2], getattr(self, 'pairs', None))
                    if ok:
                        self.declass.add((ctx.qname, norm(n)[:120]))
                        return PV(PAT, frozenset(p for p in s.prov if not self._within(p, n, ctx)))
        if all(isinstance(o, (ast.Is, ast.IsNot)) for o in ops):
            return PV(min(j.lvl, PAT), j.prov)
        return self.arith(n, ctx, *fl)

    def _within(self, site, n, ctx):
        q, line, text, rel = site
        return q == ctx.qname and text in norm(n)

    def h_ifexp(self, tv, bv, ov, n, ctx):
        t = self.cap(self.truth(flat(tv), n.test, ctx))
        parts = [x for x in (bv, ov) if x is not None]
        if len(parts) == 2 and isinstance(parts[0], PV) and isinstance(parts[1], PV) and parts[0].lvl == parts[1].lvl == CLEAN \
                and t.lvl == CLEAN:
            return PV()
        return self.jn(*parts, t)

    def h_iter(self, v, n, ctx):
        if isinstance(v, TupleV):
            return self.jn(*v.items)
        v = flat(v)
        self.sink(v, n, ctx, "iteration")
        return PV(v.lvl, v.prov)

    def h_unpack(self, v, k, n, ctx):
        x = self.h_iter(v, n, ctx)
        return [x] * k

    def h_comp(self, kind, elt, n, ctx, key=None):
        return self.jn(elt, key)

    def _comp(self, n, env, ctx, kind):
        # the result also depends on what is iterated (its length / membership)
        r = super()._comp(n, env, ctx, kind)
        it = flat(self.ev(n.generators[0].iter, env, ctx))
        dep = self.cap(it)
        out = self.jn(r, dep)
        out.vs = out.vs or it.vs
        return out

    def h_fstring(self, vals, n, ctx):
        return PV()

    def literal_truth(self, tv, test):
        if isinstance(tv, PV) and tv.lvl == CLEAN and isinstance(tv.const, bool) and not isinstance(test, ast.Constant):
            return tv.const
        return None

    def h_test(self, tv, test, kind, env, ctx):
        if kind == "for":
            return
        self.sink(self.truth(flat(tv), test, ctx), test, ctx, kind + " condition")

    def h_assume(self, tv, test, polarity, env, ctx):
        if isinstance(tv, PV) and tv.ref:
            for nm, pol in tv.ref:
                if pol == polarity and nm in env:
                    env[nm] = PV(CLEAN)
        return env

    def h_bind(self, name, v, n, env, ctx):
        # implicit flow: a value assigned under a pattern-dependent condition is at least PAT
        pcl = max([min(lvl_of(self.truth(flat(t[0]), t[1], ctx)), PAT) for t in ctx.pc] or [CLEAN])
        if pcl > lvl_of(v) and isinstance(v, PV):
            return PV(pcl, v.prov, const=None)
        return v

    def h_return(self, v, n, env, ctx):
        pcl = max([min(lvl_of(self.truth(flat(t[0]), t[1], ctx)), PAT) for t in ctx.pc] or [CLEAN])
        if pcl > lvl_of(v):
            f = flat(v)
            return PV(pcl, f.prov, ref=f.ref if isinstance(v, PV) else frozenset())
        return v

    def h_raise(self, v, n, env, ctx):
        pass

    def h_param(self, func, pname, v, ctx):
        return v

    def call_repo_raw(self, func, selfobj, args, kwargs, n, env, ctx):
        # helper(A, S, S): the two parameters hold one value. They get one tag, so that  M[rows, :][:, cols]  inside the helper is still read as
        # the principal sub-matrix it is (only for plain names evaluated to one and the same abstract value object; anything else stays untagged)
        if isinstance(n, ast.Call) and len(n.args) == len(args) and not any(isinstance(a, ast.Starred) for a in n.args) and \
                {k.arg for k in n.keywords} == set(kwargs):
            slots = {}
            for k_, a in enumerate(n.args):
                if isinstance(a, ast.Name):
                    slots.setdefault(a.id, []).append(("pos", k_))
            for k in n.keywords:
                if isinstance(k.value, ast.Name):
                    slots.setdefault(k.value.id, []).append(("kw", k.arg))
            for nm, where in slots.items():
                if len(where) < 2:
                    continue
                vals = [args[k_] if kind == "pos" else kwargs[k_] for kind, k_ in where]
                if all(isinstance(v, PV) for v in vals) and all(v is vals[0] for v in vals):
                    v0 = vals[0]
                    t = PV(v0.lvl, v0.prov, pw=v0.pw, half=v0.half, ref=v0.ref, const=v0.const, vs=v0.vs)
                    t.tag = ("same", ctx.qname, getattr(n, "lineno", 0), getattr(n, "col_offset", 0), nm)
                    args, kwargs = list(args), dict(kwargs)
                    for kind, k_ in where:
                        if kind == "pos":
                            args[k_] = t
                        else:
                            kwargs[k_] = t
        return super().call_repo_raw(func, selfobj, args, kwargs, n, env, ctx)

    def h_missing_arg(self, func, pname, n, ctx):
        return PV()

    def h_none(self, ctx):
        return PV(CLEAN, const=None)

    def h_bottom(self, func):
        return PV()

    def h_apply_effects(self, effects, func, bound, n, env, ctx):
        pass

    def h_exc_var(self, handler, env, ctx):
        return PV()

    def h_store_sub(self, base, idx, val, target, env, ctx, aug=None):
        self.sink(flat(idx), target.slice, ctx, "store index")
        b, i, v = flat(base), flat(idx), flat(val)
        if aug is not None and max(b.lvl, v.lvl) >= RAW and not isinstance(aug, (ast.BitOr, ast.BitAnd)):
            return self.arith(target, ctx, b, v)
        pcl = max([min(lvl_of(self.truth(flat(t[0]), t[1], ctx)), PAT) for t in ctx.pc] or [CLEAN])
        r = self.jn(b, v, self.cap(i))
        if pcl > r.lvl:
            r = PV(pcl, r.prov)
        return r

    def h_store_attr(self, obj, attr, val, target, env, ctx):
        if isinstance(obj, ObjV):
            obj.attrs[attr] = val if attr not in obj.attrs else self.join_generic(obj.attrs[attr], val)

    def h_augassign(self, op, cur, val, n, env, ctx):
        c, v = flat(cur), flat(val)
        if isinstance(op, (ast.BitOr, ast.BitAnd, ast.BitXor)) or max(c.lvl, v.lvl) < RAW:
            r = self.jn(c, v)
            if isinstance(cur, PV) and isinstance(val, PV) and isinstance(cur.const, int) and isinstance(val.const, int) \
                    and not ctx.loops:
                r.const = None
            return r
        return self.arith(n, ctx, c, v)

    def v_join(self, a, b):
        fa, fb = flat(a), flat(b)
        r = self.jn(fa, fb)
        if isinstance(a, PV) and isinstance(b, PV):
            if a.pw == b.pw:
                r.pw = a.pw
            if a.const is not None and a.const is not NOCONST and repr(a.const) == repr(b.const) and a.lvl == b.lvl == CLEAN:
                r.const = a.const
            r.ref = a.ref & b.ref
        return r

    def key(self, v):
        if isinstance(v, PV):
            return v.key()
        return super().key(v)

    # ------------------------------------------------------------------ calls
    def apply(self, fv, args, kwargs, n, env, ctx):
        r = super().apply(fv, args, kwargs, n, env, ctx)
        # path refinement (DESIGN.md 3.2): where is_chain_graph(X) holds, X *is* the 0/1 chain
        # - only when the callee really is a *value* test (its result is the exempt value comparison); a
        # pattern-based is_chain_graph would let weighted chains through and refines nothing
        if isinstance(fv, FuncRef) and fv.func.qname in self.EXEMPT_FUNCS and isinstance(n, ast.Call):
            first = n.args[0] if n.args else next((k.value for k in n.keywords if fv.func.posparams and k.arg == fv.func.posparams[0]), None)
            if isinstance(first, ast.Name) and isinstance(r, PV) and r.lvl == ARITH and r.prov \
                    and all(site[0] in self.EXEMPT_FUNCS for site in r.prov):
                return PV(r.lvl, r.prov, ref=frozenset({(first.id, True)}))
        return r

    def h_call_opaque(self, fv, n, args, kwargs, env, ctx):
        allv = self.jn(*args, *kwargs.values(), fv if isinstance(fv, PV) else None)
        if allv.lvl >= RAW:
            self.unknown.append((ctx.qname, getattr(n, "lineno", 0), "opaque callable applied to raw weights: " + norm(n)[:80]))
        return PV(allv.lvl, allv.prov)

    def h_call_method(self, recv, attr, n, args, kwargs, env, ctx):
        if isinstance(recv, ObjV):
            return self.h_call_opaque(PV(), n, args, kwargs, env, ctx)
        rv = flat(recv) if not isinstance(recv, PV) else recv
        allv = self.jn(*args, *kwargs.values())
        if attr == "copy" or attr == "view":
            return PV(rv.lvl, rv.prov, pw=rv.pw, half=rv.half)
        if attr == "astype":
            tgt = norm(n.args[0]) if n.args else (norm(n.keywords[0].value) if n.keywords else "")
            tgt = tgt.split(".")[-1].strip("'\"")
            if rv.lvl == RAW:
                if tgt in ("bool", "bool_"):
                    self.declass.add((ctx.qname, norm(n)[:120]))
                    return PV(PAT, rv.prov)
                if tgt.startswith("float") or tgt in ("double", "complex", "object"):
                    return PV(RAW, rv.prov, pw=rv.pw, half=rv.half)
                return self.arith(n, ctx, rv)     # integer truncation is value sensitive (0.5 -> 0)
            return PV(rv.lvl, rv.prov)
        if attr in api.TRUTHY_METHODS:
            t = self.truth(rv, n, ctx)
            return PV(t.lvl, t.prov, ref=rv.ref)
        if attr in api.VALUE_METHODS:
            if rv.lvl >= RAW:
                return self.arith(n, ctx, rv, allv)
            r = self.jn(rv, allv)
            if attr == "sort" and isinstance(n.func.value, ast.Name):
                pass
            return r
        if attr in ("append", "add", "extend", "insert", "update", "remove", "discard", "appendleft"):
            pcl = max([min(lvl_of(self.truth(flat(t[0]), t[1], ctx)), PAT) for t in ctx.pc] or [CLEAN])
            nv = self.jn(rv, allv)
            if pcl > nv.lvl:
                nv = PV(pcl, nv.prov)
            self.rebind(n.func.value, nv, env, ctx)
            return PV()
        if attr in api.KEEP_METHODS or attr in ("shuffle", "sample", "fit", "predict", "info", "apply", "multiply", "sum_"):
            return self.jn(rv, allv)
        if attr in api.GENERATOR_DRAWS or attr in ("join", "format", "split", "startswith", "endswith", "strip",
                                                    "text", "imshow", "to_numpy", "iloc"):
            return self.jn(rv, self.cap(allv) if allv.lvl < ARITH else allv)
        if rv.lvl >= RAW or allv.lvl >= RAW:
            self.unknown.append((ctx.qname, getattr(n, "lineno", 0), "unmodelled method .%s on raw weights" % attr))
        return self.jn(rv, allv)

    def h_call_ext(self, d, n, args, kwargs, env, ctx):
        pos = [a for a in args if not (isinstance(a, tuple) and len(a) == 2 and a[0] == "*")]
        pos += [a[1] for a in args if isinstance(a, tuple) and len(a) == 2 and a[0] == "*"]
        clos = [a for a in pos if isinstance(a, (Closure, FuncRef, BoundMethod))]
        data = [a for a in pos if not isinstance(a, (Closure, FuncRef, BoundMethod, ExtRef, ClassRef))]
        kw = [v for v in kwargs.values() if not isinstance(v, (Closure, FuncRef, ExtRef, ClassRef, BoundMethod))]
        allv = self.jn(*data, *kw)
        if d == "numpy.transpose" and len(data) == 1 and not kw:
            return self.h_attr(data[0], "T", n, env, ctx)            # np.transpose(x) is x.T
        if d in ("numpy.sum", "numpy.all", "numpy.any", "numpy.max", "numpy.min", "numpy.amax", "numpy.amin", "numpy.count_nonzero") and data and isinstance(data[0], PV) \
                and d.split(".")[-1] in ("sum", "all", "any", "max", "min"):
            # np.sum(x, axis=0) is x.sum(axis=0): one treatment for both spellings
            return self.h_call_method(data[0], d.split(".")[-1], n, list(pos[1:]), dict(kwargs), env, ctx)
        if d in ("filter", "map", "functools.reduce", "sorted", "max", "min") and (clos or isinstance(kwargs.get("key"), (Closure, FuncRef))):
            return self.higher_order(d, n, pos, kwargs, env, ctx)
        if d in api.TRUTHY_FUNCS:
            if d == "numpy.where" and len(pos) == 3:
                c = self.truth(flat(pos[0]), n, ctx)
                return self.jn(self.cap(c), pos[1], pos[2])
            ts = [self.truth(flat(a), n, ctx) if lvl_of(a) == RAW else flat(a) for a in data]
            r = self.jn(*ts, *kw)
            if d in ("numpy.where", "numpy.nonzero", "numpy.flatnonzero", "numpy.argwhere") and r.lvl == ARITH:
                r.vs = True           # which / how many indices come out depends on the values
            return r
        if d in api.LEN_FUNCS:
            if allv.lvl == ARITH and not allv.vs:
                return PV(PAT)        # the length of an arithmetic result is its shape, not its values
            return PV(allv.lvl if allv.lvl == ARITH else min(allv.lvl, PAT), allv.prov)
        if d in api.CLEAN_FUNCS:
            if allv.lvl == ARITH:
                return PV(ARITH, allv.prov)
            if d in ("numpy.zeros_like", "numpy.ones_like", "numpy.empty_like", "numpy.full_like", "isinstance", "type",
                     "numpy.shape", "numpy.ndim", "numpy.size") or d.endswith("Error") or d == "Exception":
                return PV()
            return PV(min(allv.lvl, PAT), allv.prov)
        if d in api.VALUE_FUNCS:
            if d in ("numpy.unique",) and allv.lvl >= RAW:
                r = self.arith(n, ctx, allv)
                r.vs = True
                return r
            if allv.lvl >= RAW:
                if d in ("int", "float") and allv.lvl == RAW and False:
                    return allv
                return self.arith(n, ctx, allv)
            return allv
        if d in api.KEEP_FUNCS:
            dt = kwargs.get("dtype")
            if d in ("numpy.array", "numpy.asarray", "numpy.asanyarray") and isinstance(dt, ExtRef) and dt.dotted.split(".")[-1].rstrip("_") == "bool" \
                    and len(data) == 1 and isinstance(data[0], PV) and data[0].lvl == RAW:
                self.declass.add((ctx.qname, norm(n)[:120]))
                return PV(PAT, data[0].prov)            # np.asarray(x, dtype=bool) is x != 0
            if d in ("numpy.array", "numpy.asarray", "numpy.asanyarray") and dt is not None and len(data) == 1 and isinstance(data[0], PV) and data[0].lvl == RAW:
                tgt = (dt.dotted.split(".")[-1] if isinstance(dt, ExtRef) else str(getattr(dt, "const", "") or "")).rstrip("_")
                if not (tgt.startswith("float") or tgt in ("double", "complex", "object", "longdouble", "single", "")):
                    return self.arith(n, ctx, data[0])       # integer truncation is value sensitive (0.5 -> 0), as for .astype(int)
            if len(data) == 1 and isinstance(data[0], PV) and d in ("numpy.array", "numpy.asarray", "numpy.atleast_2d",
                                                                     "numpy.copy", "copy.deepcopy", "copy.copy"):
                a = data[0]
                return PV(a.lvl, a.prov, pw=a.pw, half=a.half)
            if d in ("numpy.abs", "numpy.absolute") and len(data) == 1 and isinstance(data[0], PV) and data[0].pw is not None:
                a = data[0]
                return PV(a.lvl, a.prov, pw=("m", a.pw[1], ("abs", a.pw[2])))
            if d in ("numpy.abs", "numpy.absolute") and len(data) == 1 and isinstance(data[0], PV) and data[0].lvl == RAW:
                # |x| of raw entries whose pointwise form was lost on the way (copies, reshapes): an anonymous matrix, entry by entry
                a = data[0]
                return PV(RAW, a.prov, pw=("m", -1, ("abs", "a")))
            return PV(allv.lvl, allv.prov)
        if d.startswith("numpy.random.") or d.startswith("random."):
            return PV(min(allv.lvl, PAT) if allv.lvl < ARITH else ARITH, allv.prov)
        if allv.lvl >= RAW:
            self.unknown.append((ctx.qname, getattr(n, "lineno", 0), "unmodelled call %s on raw weights" % d))
        return PV(allv.lvl, allv.prov)

    def higher_order(self, d, n, pos, kwargs, env, ctx):
        if d in ("filter", "map"):
            f, data = pos[0], self.jn(*pos[1:])
            elem = PV(data.lvl, data.prov)
            r = self.apply(f, [elem], {}, n, env, ctx)
            if d == "filter":
                self.sink(self.truth(flat(r), n, ctx), n, ctx, "filter condition")
                return self.jn(data, self.cap(flat(r)))
            return self.jn(r, self.cap(data))
        if d == "functools.reduce":
            f = pos[0]
            data = flat(pos[1])
            acc = flat(pos[2]) if len(pos) > 2 else PV(data.lvl, data.prov)
            for _ in range(6):
                r = flat(self.apply(f, [acc, PV(data.lvl, data.prov)], {}, n, env, ctx))
                new = self.jn(acc, r)
                if new.key() == acc.key():
                    break
                acc = new
            return self.jn(acc, self.cap(data))
        # sorted / max / min with key=
        f = kwargs.get("key")
        data = self.jn(*[p for p in pos if not isinstance(p, (Closure, FuncRef))])
        r = flat(self.apply(f, [PV(data.lvl, data.prov)], {}, n, env, ctx)) if f is not None else PV()
        if max(r.lvl, data.lvl) >= RAW:
            return self.arith(n, ctx, r, data)
        return self.jn(r, data)


def chain_test_is_exact(prog):
    """The frozen exception of DESIGN.md 3.2 covers `is_chain_graph` only while it is the exact value test
    `(A == chain_graph(len(A))).all()` - true only for *the* 0/1 chain, so a weighted or different graph simply
    takes the general path.  Any other body (sums, partial comparisons) loses the exemption."""
    from .sym import Sym, run_function, T
    q = "sempler.utils.is_chain_graph"
    if q not in prog.funcs:
        return False
    try:
        S = Sym(prog)
        summ, _ = run_function(S, prog.funcs[q])
        t = T(summ.ret)
    except Inconclusive:
        return False
    A = ("param", "A")
    lens = [("ext", "len", (A,), ()), ("sub", ("attr", A, "shape"), ("const", 0))]
    chains = [("call", "sempler.utils.chain_graph", (l,), (("p", l),)) for l in lens]
    forms = []
    for c in chains:
        forms += [("method", ("cmp", "==", A, c), "all", (), ()), ("method", ("cmp", "==", c, A), "all", (), ()),
                  ("ext", "numpy.array_equal", (A, c), ()), ("ext", "numpy.array_equal", (c, A), ()),
                  ("ext", "numpy.all", (("cmp", "==", A, c),), ()), ("ext", "bool", (("method", ("cmp", "==", A, c), "all", (), ()),), ())]
    return t in forms


# ====================================================================== entry driver
MAY_RETURN_RAW = {"only_directed", "only_undirected", "induced_subgraph", "edge_weights"}


def run_entry(P, func, matrix_param, extra=None):
    """Analyse `func` with its matrix parameter RAW and every other parameter CLEAN.
    Returns (return value, object when func is a constructor)."""
    prog = P.prog
    ctx = P.module_ctx(func.module)
    bound = {}
    for p in func.params:
        bound[p] = PV()
    if matrix_param not in bound:
        raise Inconclusive("parameter %s of %s not found" % (matrix_param, func.qname), func.node)
    bound[matrix_param] = P.fresh_matrix()
    if extra:
        bound.update(extra)
    obj = None
    if func.is_method:
        obj = ObjV(func.module, func.cls, {})
    env = {}
    s = P.summary(func, obj, bound, env, ctx, func.node)
    return s.ret, obj
