"""Refutation of normal-form equality by exact rational evaluation (used only when two matrix
normal forms differ in their inverse structure, where the syntactic comparison is not complete).

Both normal forms are evaluated, in exact `fractions.Fraction` arithmetic, at a generic rational
point of the *checker's own symbols* (atoms of the normal forms - nothing of the repository is run).
If the values differ at a point where every inverse exists, the two rational expressions are
different functions: a certain VIOLATION with the point as witness.  Agreement proves nothing and is
reported as inconclusive, never as a pass.
"""
import random
from fractions import Fraction

from .loader import Inconclusive


# ----------------------------------------------------------------------------- tiny exact linear algebra
def is_m(x):
    return isinstance(x, tuple) and x[0] == "m"


def is_v(x):
    return isinstance(x, tuple) and x[0] == "v"


def is_s(x):
    return isinstance(x, tuple) and x[0] == "s"


def mat(rows):
    return ("m", [list(r) for r in rows])


def vec(v):
    return ("v", list(v))


def sc(x):
    return ("s", Fraction(x))


def transpose(x):
    if is_m(x):
        return mat(zip(*x[1])) if x[1] else x
    return x


def matmul(a, b):
    if is_s(a) or is_s(b):
        return scale(b, a[1]) if is_s(a) else scale(a, b[1])
    if is_m(a) and is_m(b):
        if a[1] and len(a[1][0]) != len(b[1]):
            raise Inconclusive("shape mismatch in product")
        bt = list(zip(*b[1]))
        return mat([[sum(x * y for x, y in zip(r, c)) for c in bt] for r in a[1]])
    if is_m(a) and is_v(b):
        if a[1] and len(a[1][0]) != len(b[1]):
            raise Inconclusive("shape mismatch in product")
        return vec([sum(x * y for x, y in zip(r, b[1])) for r in a[1]])
    if is_v(a) and is_m(b):
        if len(a[1]) != len(b[1]):
            raise Inconclusive("shape mismatch in product")
        return vec([sum(x * y for x, y in zip(a[1], c)) for c in zip(*b[1])])
    if is_v(a) and is_v(b):
        if len(a[1]) != len(b[1]):
            raise Inconclusive("shape mismatch in product")
        return sc(sum(x * y for x, y in zip(a[1], b[1])))
    raise Inconclusive("product of %s and %s" % (a[0], b[0]))


def scale(a, c):
    if is_s(a):
        return sc(a[1] * c)
    if is_v(a):
        return vec([x * c for x in a[1]])
    return mat([[x * c for x in r] for r in a[1]])


def plus(a, b):
    if a is None:
        return b
    if a[0] != b[0]:
        raise Inconclusive("sum of %s and %s" % (a[0], b[0]))
    if is_s(a):
        return sc(a[1] + b[1])
    if is_v(a):
        if len(a[1]) != len(b[1]):
            raise Inconclusive("shape mismatch in sum")
        return vec([x + y for x, y in zip(a[1], b[1])])
    if len(a[1]) != len(b[1]) or (a[1] and len(a[1][0]) != len(b[1][0])):
        raise Inconclusive("shape mismatch in sum")
    return mat([[x + y for x, y in zip(r, s)] for r, s in zip(a[1], b[1])])


def inverse(a):
    if is_s(a):
        if a[1] == 0:
            raise ZeroDivisionError
        return sc(1 / a[1])
    if not is_m(a) or (a[1] and len(a[1]) != len(a[1][0])):
        raise Inconclusive("inverse of a non-square value")
    n = len(a[1])
    A = [list(r) + [Fraction(int(i == j)) for j in range(n)] for i, r in enumerate(a[1])]
    for c in range(n):
        piv = next((r for r in range(c, n) if A[r][c] != 0), None)
        if piv is None:
            raise ZeroDivisionError
        A[c], A[piv] = A[piv], A[c]
        pv = A[c][c]
        A[c] = [x / pv for x in A[c]]
        for r in range(n):
            if r != c and A[r][c] != 0:
                f = A[r][c]
                A[r] = [x - f * y for x, y in zip(A[r], A[c])]
    return mat([r[n:] for r in A])


def identity(n):
    return mat([[Fraction(int(i == j)) for j in range(n)] for i in range(n)])


def diag(v):
    if not is_v(v):
        raise Inconclusive("diag of a non-vector")
    n = len(v[1])
    return mat([[v[1][i] if i == j else Fraction(0) for j in range(n)] for i in range(n)])


# ----------------------------------------------------------------------------- evaluation of a normal form
class Point:
    """an assignment: atoms (SYM terms) -> values, index terms -> lists of ints / ints"""

    def __init__(self, p, values, indices, mnf=None):
        self.p, self.values, self.indices, self.mnf = p, values, indices, mnf

    def index(self, k):
        if k == "ALL":
            return list(range(self.p))
        if isinstance(k, tuple) and k and k[0] == "scalar":
            v = self.index(k[1])
            if isinstance(v, list):
                raise Inconclusive("scalar index evaluates to a list")
            return v
        if k in self.indices:
            return self.indices[k]
        if isinstance(k, tuple) and k[0] == "sub" and len(k) == 3 and not (isinstance(k[2], tuple) and k[2] and k[2][0] in ("tuple", "slice")):
            # an index list indexed by an index list (a permutation of it): L[P]
            base_, pos_ = self.index(k[1]), self.index(k[2])
            if isinstance(base_, list) and isinstance(pos_, list):
                return [base_[j] for j in pos_]
            if isinstance(base_, list) and isinstance(pos_, int):
                return base_[pos_]
        if isinstance(k, tuple) and k[0] == "ext" and len(k[2]) == 1:
            inner = self.index(k[2][0])
            d = k[1]
            if isinstance(inner, list) and d == "numpy.argsort":
                return sorted(range(len(inner)), key=lambda j: inner[j])
            if isinstance(inner, list):
                if d in ("sorted", "numpy.sort"):
                    return sorted(inner)
                if d == "numpy.unique":
                    return sorted(set(inner))
                if d in ("reversed", "numpy.flip"):
                    return list(reversed(inner))
                if d in ("list", "tuple", "numpy.array", "numpy.asarray", "numpy.atleast_1d"):
                    return inner
                if d in ("set", "frozenset"):
                    return sorted(set(inner))      # iteration order of small ints
        raise Inconclusive("index expression outside the evaluable fragment: %r" % (k,))


def ev_factor(f, pt):
    k = f[0]
    if k == "I":
        return identity(pt.p)
    if k == "A":
        if f[1] not in pt.values:
            raise Inconclusive("no value for atom")
        v = pt.values[f[1]]
        return transpose(v) if f[2] else v
    if k == "B":
        _, base, r, c, t = f
        b = pt.values.get(base)
        if b is None or not is_m(b):
            raise Inconclusive("no matrix value for block base")
        ri, ci = pt.index(r), pt.index(c)
        if isinstance(ri, int) and isinstance(ci, int):
            return sc(b[1][ri][ci])
        if isinstance(ri, int):
            v = vec([b[1][ri][j] for j in ci])
        elif isinstance(ci, int):
            v = vec([b[1][i][ci] for i in ri])
        else:
            v = mat([[b[1][i][j] for j in ci] for i in ri])
        return transpose(v) if t else v
    if k == "V":
        b = pt.values.get(f[1])
        if b is None and pt.mnf is not None:
            b = ev_nf(pt.mnf.nf(f[1]), pt)          # v[idx] of a computed vector (e.g. a solution re-indexed by a permutation)
        if b is None or not is_v(b):
            raise Inconclusive("no vector value")
        i = pt.index(f[2])
        return sc(b[1][i]) if isinstance(i, int) else vec([b[1][j] for j in i])
    if k == "D":
        return diag(ev_nf(dict(f[1]), pt))
    if k == "inv":
        return inverse(ev_nf(dict(f[1]), pt))
    raise Inconclusive("factor %s outside the evaluable fragment" % k)


def ev_nf(nf, pt):
    total = None
    for mono, coef in nf.items():
        val = sc(1)
        first = True
        for f in mono:
            x = ev_factor(f, pt)
            val = x if first else matmul(val, x)
            first = False
        val = scale(val, coef)
        total = plus(total, val)
    if total is None:
        return sc(0)
    return total


def refute(a, b, make_point, tries=6, seed=0):
    """-> ('different', witness) | ('agree', n) | ('unknown', why)"""
    rnd = random.Random(seed)
    agreed = 0
    why = ""
    for _ in range(tries * 3):
        pt = make_point(rnd)
        try:
            va, vb = ev_nf(a, pt), ev_nf(b, pt)
        except ZeroDivisionError:
            continue
        except Inconclusive as e:
            return ("unknown", e.why)
        if va != vb:
            return ("different", {"got": _show(va), "expected": _show(vb)})
        agreed += 1
        if agreed >= tries:
            break
    return ("agree", agreed)


def _show(v):
    if is_s(v):
        return str(v[1])
    if is_v(v):
        return [str(x) for x in v[1]]
    return [[str(x) for x in r] for r in v[1]]


def rand_vec(rnd, n):
    return vec([Fraction(rnd.randint(-5, 5), rnd.randint(1, 3)) for _ in range(n)])


def rand_spd(rnd, n):
    L = [[Fraction(rnd.randint(-2, 2)) for _ in range(n)] for _ in range(n)]
    m = matmul(mat(L), transpose(mat(L)))
    return plus(m, identity(n))


def rand_dag(rnd, n):
    return mat([[Fraction(rnd.randint(-3, 3), rnd.randint(1, 2)) if j > i else Fraction(0) for j in range(n)] for i in range(n)])
