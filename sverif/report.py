"""Rule instances, verdicts, evidence files, known findings and exit codes (DESIGN.md 1.2, 2.5)."""
import hashlib
import json
import os
import sys
import time

PASS, VIOLATION, INCONCLUSIVE = "PASS", "VIOLATION", "INCONCLUSIVE"
VERIF = os.path.dirname(os.path.dirname(os.path.abspath(__file__)))
EVIDENCE_DIR = os.path.join(VERIF, "evidence")
KNOWN = os.path.join(VERIF, "known_findings.json")


class Instance:
    __slots__ = ("rule", "verdict", "where", "msg", "detail")

    def __init__(self, rule, verdict, where, msg, detail=None):
        self.rule, self.verdict, self.where, self.msg, self.detail = rule, verdict, where, msg, detail

    def key(self):
        w = self.where or {}
        return (self.rule, w.get("file", ""), w.get("function", ""), w.get("construct", ""))

    def as_dict(self):
        d = {"rule": self.rule, "verdict": self.verdict, "where": self.where, "msg": self.msg}
        if self.detail is not None:
            d["detail"] = self.detail
        return d

    def line(self):
        w = self.where or {}
        return "%s:%s %s — %s [%s] %s" % (w.get("file", "?"), w.get("line", "?"), w.get("function", "?"),
                                           str(w.get("construct", "")).replace("\n", " "), self.rule, self.msg)


class Report:
    def __init__(self, prop, tier="quick"):
        self.prop, self.tier = prop, tier
        self.instances = []
        self._seen = set()
        self.tables = {}
        self.assumptions = []
        self.analysed = {}
        self.notes = []
        self.t0 = time.time()
        self.counts_min = {}     # rule -> minimum number of instances (vacuity guard)
        self.selftest = None
        self.exhaustive = False
        self.form = None         # how decorated entry points are being called in the current pass (see __main__)

    # ------------------------------------------------------------------ recording
    def add(self, rule, verdict, where, msg, detail=None):
        if self.form and verdict != PASS:
            msg = "%s [%s]" % (msg, self.form)
        inst = Instance(rule, verdict, where, msg, detail)
        # every rule application counts for the vacuity guard, also when two of them report the same place (one helper expanded at two call sites)
        self._applied = getattr(self, "_applied", [])
        self._applied.append((self.form, rule))
        k = inst.key() + (verdict,)
        if k in self._seen:
            return inst
        self._seen.add(k)
        self.instances.append(inst)
        return inst

    def ok(self, rule, where, msg, detail=None):
        return self.add(rule, PASS, where, msg, detail)

    def bad(self, rule, where, msg, detail=None):
        return self.add(rule, VIOLATION, where, msg, detail)

    def unk(self, rule, where, msg, detail=None):
        return self.add(rule, INCONCLUSIVE, where, msg, detail)

    def check(self, rule, cond, where, okmsg, badmsg, detail=None):
        """a two-way rule: the construct has the expected form, or it does not.  "Does not" is a violation only where the construct is still the
        one the rule was written for; in a function that changed shape (sverif/shape.py) the rule no longer reads the code: undecided"""
        if cond:
            return self.ok(rule, where, okmsg, detail)
        gate = getattr(self, "shape_gate", None)
        why = gate((where or {}).get("function")) if gate is not None else None
        if why:
            return self.unk(rule, where, "%s - not decided, the rule was written for another shape of this code: %s" % (badmsg, why), detail)
        return self.bad(rule, where, badmsg, detail)

    def bad_form(self, rule, where, msg, detail=None):
        """a violation whose ground is "the expected construct is not there / not in the expected number": like a failed two-way check it is
        decided only where the function still has the shape the rule was confirmed on (shape gate)"""
        return self.check(rule, False, where, "", msg, detail)

    def decide(self, rule, cond, where, okmsg, badmsg, detail=None):
        """a two-way rule whose "no" is a fact established by an analysis (an exception handler around the call, the state of the random
        stream at a draw), not the absence of an expected form: it holds whatever shape the surrounding code has"""
        return self.ok(rule, where, okmsg, detail) if cond else self.bad(rule, where, badmsg, detail)

    def require_count(self, rule, minimum):
        self.counts_min[rule] = minimum

    def assume(self, text):
        if text not in self.assumptions:
            self.assumptions.append(text)

    def count(self, rule=None, verdict=None):
        return sum(1 for i in self.instances if (rule is None or i.rule == rule or i.rule.startswith(rule + "."))
                   and (verdict is None or i.verdict == verdict))

    # ------------------------------------------------------------------ finishing
    def finish(self, prog_info, explanation, write=True):
        # vacuity guards
        for rule, minimum in self.counts_min.items():
            have = self.count(rule)
            applied = getattr(self, "_applied", [])
            for form in {f_ for f_, _ in applied}:
                have = max(have, sum(1 for f_, r_ in applied if f_ == form and (r_ == rule or r_.startswith(rule + "."))))
            if have < minimum:
                self.unk("VACUITY", {"file": "-", "line": 0, "function": "-", "construct": rule},
                         "rule %s matched %d instances, fewer than the %d confirmed by hand" % (rule, have, minimum))
        known = load_known()
        viol = [i for i in self.instances if i.verdict == VIOLATION]
        inc = [i for i in self.instances if i.verdict == INCONCLUSIVE]
        new_viol, known_hits = [], []
        for v in viol:
            hit = match_known(known, self.prop, v)
            (known_hits if hit else new_viol).append(v)
        wall = time.time() - self.t0
        n_pass = self.count(verdict=PASS)
        samples = [i.as_dict() for i in self.instances[:12]]
        for v in viol[:10]:
            samples.append(v.as_dict())
        rules = sorted({i.rule for i in self.instances})
        ev = {
            "property_id": self.prop,
            "tier": self.tier,
            "seed": int(os.environ.get("VERIF_SEED", "0") or 0),
            "level": "other",
            "coverage": {
                "explanation": explanation,
                "obligations": len(self.instances),
                "discharged": n_pass,
                "evaluations": len(self.instances),
                "distinct_nontrivial": len({i.key() for i in self.instances}),
                "rule": "one obligation = one rule applied to one construct of /repo's current source; distinct = distinct (rule, file, function, construct text)",
                "rules": rules,
                "per_rule": {r: {"pass": self.count(r, PASS), "violation": self.count(r, VIOLATION),
                                 "inconclusive": self.count(r, INCONCLUSIVE)} for r in rules},
                "samples": samples,
                "tables": self.tables,
                "analysed": dict(self.analysed, **prog_info),
                "inconclusive": [i.as_dict() for i in inc],
                "known_findings_matched": [i.as_dict() for i in known_hits],
                "notes": self.notes[:50],
                "exhaustive": bool(self.exhaustive),
                "checker_cmd": "cd /verif && /venv/bin/python -m sverif %s --tier %s" % (self.prop, self.tier),
                "trusted_base": ["Python semantics of the statement/expression subset used by the repository",
                                 "hand-written API model of the numpy/stdlib/pandas entry points consulted (sverif/api.py)"],
            },
            "assumptions": self.assumptions,
            "wall_s": round(wall, 3),
            "violations": len(new_viol),
        }
        if self.selftest is not None:
            ev["coverage"]["selftest"] = self.selftest
        if write:
            os.makedirs(EVIDENCE_DIR, exist_ok=True)
            with open(os.path.join(EVIDENCE_DIR, "%s.json" % self.prop), "w") as f:
                json.dump(ev, f, indent=1, sort_keys=True, default=str)
        # console
        print("sverif %s tier=%s: %d obligations, %d pass, %d violation(s) (%d known), %d inconclusive, %.2fs" % (
            self.prop, self.tier, len(self.instances), n_pass, len(viol), len(known_hits), len(inc), wall))
        for k, v in sorted(self.analysed.items()):
            print("  analysed %s: %s" % (k, v if not isinstance(v, (list, dict)) else len(v)))
        for i in known_hits:
            print("KNOWN-FINDING: property=%s %s" % (self.prop, i.line()))
        code = 0
        if new_viol:
            replay = write_replay(self.prop, new_viol) if write else "-"
            for i in new_viol:
                print("  violation: " + i.line())
            for i in inc:
                print("  inconclusive: " + i.line())
            print("VIOLATION property=%s replay=%s" % (self.prop, replay))
            code = 1
        elif inc:
            for i in inc:
                print("ANALYSIS-ERROR property=%s %s" % (self.prop, i.line()))
            code = 2
        return code


def write_replay(prop, viols):
    d = os.path.join(EVIDENCE_DIR, "replay")
    os.makedirs(d, exist_ok=True)
    body = {"property": prop, "violations": [v.as_dict() for v in viols],
            "replay": "cd /verif && /venv/bin/python -m sverif %s --replay <this file>" % prop}
    h = hashlib.sha256(json.dumps(body, sort_keys=True, default=str).encode()).hexdigest()[:12]
    path = os.path.join(d, "%s-%s.json" % (prop, h))
    with open(path, "w") as f:
        json.dump(body, f, indent=1, sort_keys=True, default=str)
    return path


def load_known():
    if not os.path.exists(KNOWN):
        return {"findings": [], "fixed": []}
    with open(KNOWN) as f:
        return json.load(f)


def match_known(known, prop, inst):
    w = inst.where or {}
    for k in known.get("findings", []):
        if k.get("property") != prop or k.get("rule") != inst.rule:
            continue
        if k.get("function") == w.get("function") and k.get("construct") == w.get("construct"):
            return k
    return None


def analysis_error(prop, msg):
    print("ANALYSIS-ERROR property=%s %s" % (prop, msg))
    sys.stdout.flush()
