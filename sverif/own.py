"""OWN - ownership, mutation and aliasing (DESIGN.md 3.3).

Abstract objects (labels):  ('P', name)   object the caller passed as parameter `name`
                            ('PE', name)  element of the container passed as `name`
                            ('S', attr)   object stored in self.<attr> ; ('SE', attr) its elements
                            ('D', name)   default-argument object of parameter `name`
                            'F' fresh allocation   'I' immutable scalar
A label with a trailing '?' (('P?', name) ...) means *may* alias (index kind unknown).
Values: OV(labels, elems, kind) - elems = abstract element of a Python container / object array,
kind = how the value behaves as an index ('int', 'slice', 'arr' = integer/boolean array or list).
Tuples are tracked field by field (core.TupleV).
"""
import ast

from . import api
from .core import (Interp, TupleV, Closure, FuncRef, ClassRef, ExtRef, ObjV, BoundMethod, SuperV, SliceV)
from .loader import Inconclusive, norm

F, IMM = "F", "I"
# parameters that are numbers / flags by their documented role: rebinding, never mutation
SCALAR_PARAMS = {"i", "j", "k", "p", "n", "K", "size", "fro", "to", "no_edges", "random_state", "check_chain", "debug",
                 "population", "replace", "return_ordering", "w_min", "w_max", "tol", "rtol", "atol", "empty", "target",
                 "max_combinations", "axis", "dtype", "verbose", "lo", "hi", "scale", "check_valid", "block", "weights",
                 "vmin", "vmax", "formt", "thresh", "values_sorted", "y"}


class OV:
    __slots__ = ("labels", "elems", "kind")

    def __init__(self, labels=frozenset([F]), elems=None, kind=None):
        self.labels = frozenset(labels)
        self.elems, self.kind = elems, kind

    def __repr__(self):
        return "OV(%s%s%s)" % (",".join(sorted(map(str, self.labels))), ";e=%r" % (self.elems,) if self.elems is not None else "",
                                ";" + self.kind if self.kind else "")


FRESH = OV([F])
IMMV = OV([IMM], kind="int")
EMPTY = OV([])          # element of an empty python container (list / dict / set / object array)
# parameters documented as collections of node indices / numbers: their elements are immutable
ELEM_SCALAR = {"sempler.utils.sort": {"L", "order"}, "sempler.utils.subsets": {"S"}, "sempler.utils.sorted_tuple": {"iterable"},
               "sempler.utils.all_but": {"k"}}


# parameters documented as Python containers *of arrays* (a list with one sample per environment): `.copy()` / list(...) of such a
# container is shallow - the arrays inside are still the caller's
CONTAINER_PARAMS = {"sempler.utils.split_data": {"data"}, "sempler.semi.BayesianNetwork.__init__": {"data"}, "sempler.semi.DRFNet.__init__": {"data"}}


def caller_owned(labels):
    return {l for l in labels if isinstance(l, tuple)}


def maybe(labels):
    out = set()
    for l in labels:
        if isinstance(l, tuple) and not l[0].endswith("?"):
            out.add((l[0] + "?", l[1]))
        else:
            out.add(l)
    return frozenset(out)


def strip_maybe(l):
    return (l[0].rstrip("?"), l[1]) if isinstance(l, tuple) else l


def labels_of(v):
    if isinstance(v, OV):
        return set(v.labels)
    if isinstance(v, TupleV):
        r = set()
        for x in v.items:
            r |= labels_of(x)
        return r
    if isinstance(v, ObjV):
        if v.tag == "self":
            return {("S", "<self>")}
        return {F}
    return {IMM}


def deep_labels(v, depth=0):
    """labels of the value and of everything reachable through elements / fields"""
    if isinstance(v, OV):
        r = set(v.labels)
        if v.elems is not None and depth < 4:
            r |= deep_labels(v.elems, depth + 1)
        return r
    if isinstance(v, TupleV):
        r = set()
        for x in v.items:
            r |= deep_labels(x, depth + 1)
        return r
    if isinstance(v, ObjV):
        if v.tag == "self":
            return {("S", "<self>")}
        r = {F}
        for x in v.attrs.values():
            r |= deep_labels(x, depth + 1)
        return r
    return {IMM}


def elem_of(v):
    """abstract element of a container value"""
    if isinstance(v, TupleV):
        return None
    if isinstance(v, OV):
        if v.elems is not None:
            return v.elems
        if not caller_owned(v.labels):
            return OV(v.labels - {IMM} or {IMM}, kind="int" if v.kind == "arr" else None)
        # element / row of an array: a view of the same storage
        own = {(l[0][0] + "E" if l[0] in ("P", "S") else l[0], l[1]) if isinstance(l, tuple) and l[0] in ("P", "S") else l
               for l in v.labels}
        return OV(own, kind="int" if v.kind == "arr" else None)
    return IMMV


class Write:
    __slots__ = ("site", "labels", "how", "chain", "target")

    def __init__(self, site, labels, how, chain, target):
        self.site, self.labels, self.how, self.chain, self.target = site, frozenset(labels), how, chain, target

    def key(self):
        return (self.site, self.labels, self.how, self.chain)


class Own(Interp):
    name = "OWN"

    def __init__(self, prog):
        super().__init__(prog)
        self.write_sites = {}       # site -> set(labels)  (every write classified)
        self.rebinds = []           # self.x = ... outside __init__
        self.unknown = []

    # ------------------------------------------------------------------ effects
    def write(self, ctx, n, target_val, how, target_node=None):
        labels = labels_of(target_val)
        site = (ctx.qname, getattr(n, "lineno", 0), norm(n)[:140], ctx.func.module.relpath if ctx.func else "?")
        self.write_sites.setdefault(site, set()).update(labels)
        w = Write(site, labels, how, (), norm(target_node)[:60] if target_node is not None else "")
        if not any(x.key() == w.key() for x in ctx.effects if isinstance(x, Write)):
            ctx.effects.append(w)

    def h_apply_effects(self, effects, func, bound, n, env, ctx):
        for e in effects:
            if isinstance(e, Write):
                w = Write(e.site, e.labels, e.how, ((ctx.qname, getattr(n, "lineno", 0)),) + e.chain, e.target)
                if not any(x.key() == w.key() for x in ctx.effects if isinstance(x, Write)) and len(w.chain) < 12:
                    ctx.effects.append(w)
            else:
                ctx.effects.append(e)

    # ------------------------------------------------------------------ values
    def global_value(self, dotted, n, ctx):
        k = self.prog.lookup(dotted)
        if k[0] == "global" and not isinstance(k[2], ast.Constant):
            # module-level mutable state: shared by every call
            return OV([("G", dotted)])
        return super().global_value(dotted, n, ctx)

    def h_global_store(self, module, name, v, n, env, ctx):
        # the stored object becomes reachable from module state: whoever holds it shares it with every later call
        ov = self.to_ov(v) if not isinstance(v, OV) else v
        return OV(set(ov.labels) | {("G", "%s.%s" % (module.name, name))}, elems=ov.elems, kind=getattr(ov, "kind", None))

    def h_global_load(self, module, name, n, env, ctx):
        return OV([("G", "%s.%s" % (module.name, name))])

    def h_const(self, n, ctx):
        return OV([IMM], kind="int" if isinstance(n.value, (int, bool)) else None)

    def h_unbound(self, name, n, ctx):
        return FRESH

    def jn(self, *vs):
        vs = [v for v in vs if v is not None and v is not EMPTY] or ([EMPTY] if any(v is EMPTY for v in vs) else [])
        if not vs:
            return FRESH
        r = vs[0]
        for v in vs[1:]:
            r = self.join_generic(r, v)
        return r

    def to_ov(self, v):
        if isinstance(v, OV):
            return v
        if isinstance(v, TupleV):
            return OV([F], elems=self.jn(*v.items) if v.items else None)
        if isinstance(v, ObjV):
            return OV(labels_of(v))
        return IMMV

    def h_seq(self, kind, vals, n, ctx):
        if kind == "tuple":
            return TupleV(vals)
        return OV([F], elems=self.jn(*vals) if vals else EMPTY, kind="arr" if kind == "list" else None)

    def h_dict(self, keys, vals, n, ctx):
        return OV([F], elems=self.jn(*vals) if vals else EMPTY)

    def h_attr(self, v, attr, n, env, ctx):
        if isinstance(v, ObjV):
            if v.tag == "self":
                return OV([("S", attr)])
            return v.attrs.get(attr, FRESH)
        v = self.to_ov(v)
        if attr in api.ALIAS_ATTRS:
            return OV(v.labels, v.elems)
        if attr in api.CLEAN_ATTRS:
            return OV([IMM])
        # attribute of a caller-owned object: part of that object
        return OV(v.labels)

    def h_slice(self, lo, up, st, n, ctx):
        return SliceV(lo, up, st)

    def idx_kind(self, idx):
        if isinstance(idx, SliceV):
            return "slice"
        if isinstance(idx, TupleV):
            ks = [self.idx_kind(x) for x in idx.items]
            if "arr" in ks:
                return "arr"
            if None in ks:
                return None
            if "slice" in ks:
                return "slice"
            return "int"
        if isinstance(idx, OV):
            return idx.kind
        return None

    def h_subscript(self, base, idx, n, env, ctx):
        if isinstance(base, TupleV):
            if isinstance(idx, OV) and isinstance(n.slice, ast.Constant) and isinstance(n.slice.value, int) \
                    and -len(base.items) <= n.slice.value < len(base.items):
                return base.items[n.slice.value]
            if isinstance(idx, SliceV):
                return TupleV(base.items) if False else OV([F], elems=self.jn(*base.items) if base.items else None)
            return self.jn(*base.items) if base.items else FRESH
        b = self.to_ov(base)
        k = self.idx_kind(idx)
        if b.elems is not None:
            # python container or object array
            if k == "slice":
                return OV([F], elems=b.elems)
            if k == "arr":
                return OV([F], elems=b.elems)
            return b.elems
        if caller_owned(b.labels) == set() and IMM in b.labels and len(b.labels) == 1:
            return IMMV
        if k == "arr":
            return OV([F])                      # fancy / boolean indexing copies
        if k == "slice":
            return OV(b.labels)                 # basic slicing: a view
        if k == "int" and isinstance(idx, TupleV) and len(idx.items) >= 2:
            return IMMV                         # M[i, j]: a number
        if k == "int":
            # scalar index: a number (1-D) or a row view (n-D); as an object it may share storage
            return OV(maybe(b.labels) if caller_owned(b.labels) else b.labels, kind="int")
        return OV(maybe(b.labels))

    def h_unary(self, op, v, n, ctx):
        v = self.to_ov(v)
        return OV([F], kind="arr" if v.kind == "arr" or not isinstance(op, ast.USub) else v.kind) if not (IMM in v.labels and len(v.labels) == 1) \
            else OV([IMM], kind=v.kind)

    def h_boolop(self, op, vals, n, ctx):
        return self.jn(*[self.to_ov(v) for v in vals])

    def h_binop(self, op, l, r, n, ctx):
        l, r = self.to_ov(l), self.to_ov(r)
        if l.labels == {IMM} and r.labels == {IMM}:
            return OV([IMM], kind="int" if l.kind == "int" and r.kind == "int" else None)
        elems = None
        if isinstance(op, (ast.Add, ast.BitOr, ast.BitAnd, ast.Sub, ast.Mult)):
            # list concatenation / set algebra keep the element objects
            es = [x.elems for x in (l, r) if x.elems is not None]
            elems = self.jn(*es) if es else None
        kind = "arr" if "arr" in (l.kind, r.kind) else ("int" if l.kind == "int" and r.kind == "int" else None)
        return OV([F], elems=elems, kind=kind)

    def h_compare(self, ops, vals, n, ctx):
        vs = [self.to_ov(v) for v in vals]
        if all(v.labels == {IMM} or v.kind == "int" for v in vs):
            return OV([IMM], kind="int")
        return OV([F], kind="arr")

    def h_ifexp(self, tv, bv, ov, n, ctx):
        if bv is None:
            return ov
        if ov is None:
            return bv
        return self.join_generic(bv, ov)

    def h_iter(self, v, n, ctx):
        if isinstance(v, TupleV):
            return self.jn(*v.items) if v.items else FRESH
        v = self.to_ov(v)
        if v.elems is not None:
            return v.elems
        if v.labels == {IMM}:
            return IMMV
        e = elem_of(v)
        return OV(e.labels, kind="int" if v.kind in ("arr", "int") or not caller_owned(v.labels) else None)

    def h_unpack(self, v, k, n, ctx):
        x = self.h_iter(v, n, ctx)
        if isinstance(x, TupleV) and len(x.items) == k:
            return list(x.items)
        return [x] * k

    def h_comp(self, kind, elt, n, ctx, key=None):
        return OV([F], elems=elt if not (isinstance(elt, OV) and elt.labels == {IMM}) else None, kind="arr" if kind == "list" else None)

    def h_fstring(self, vals, n, ctx):
        return OV([IMM])

    def h_test(self, tv, test, kind, env, ctx):
        pass

    def h_bind(self, name, v, n, env, ctx):
        return v

    def h_store_sub(self, base, idx, val, target, env, ctx, aug=None):
        self.write(ctx, target, base if not isinstance(base, TupleV) else self.to_ov(base), "augmented store" if aug else "store", target.value)
        b = base
        if isinstance(b, OV) and b.elems is not None:
            # python container / object array: it now also holds `val`
            return OV(b.labels, elems=self.jn(b.elems, val), kind=b.kind)
        return None

    def h_store_attr(self, obj, attr, val, target, env, ctx):
        if isinstance(obj, ObjV):
            if obj.tag == "self":
                self.rebinds.append((ctx.qname, target, attr, val, ctx.func.module.relpath if ctx.func else "?", ctx.func))
            obj.attrs[attr] = val
            return
        self.write(ctx, target, self.to_ov(obj), "attribute store", target.value)

    def attr_of(self, v, attr, n, env, ctx):
        if isinstance(v, ObjV) and v.tag == "self" and self.prog.method(v.module, v.cls, attr) is None:
            if ctx.func is not None and ctx.func.name == "__init__" and attr in v.attrs:
                return v.attrs[attr]
            return OV([("S", attr)])
        return super().attr_of(v, attr, n, env, ctx)

    def h_augassign(self, op, cur, val, n, env, ctx):
        c = self.to_ov(cur)
        if c.labels == {IMM} or c.kind == "int":
            return OV([IMM], kind="int")
        # in-place operator on a mutable object
        self.write(ctx, n, c, "in-place operator", n.target)
        v = self.to_ov(val)
        es = [x.elems for x in (c, v) if x.elems is not None]
        return OV(c.labels, elems=self.jn(*es) if es else None, kind=c.kind)

    def h_missing_arg(self, func, pname, n, ctx):
        return FRESH

    def h_default(self, func, pname, dnode, ctx):
        if isinstance(dnode, ast.Constant):
            return OV([IMM], kind="int" if isinstance(dnode.value, (int, bool)) else None)
        return OV([("D", "%s.%s" % (func.qname, pname))])

    def h_none(self, ctx):
        return OV([IMM])

    def h_bottom(self, func):
        return FRESH

    def h_exc_var(self, handler, env, ctx):
        return FRESH

    def h_new(self, module, clsname, n, ctx):
        return ObjV(module, clsname, {}, tag=("new", getattr(n, "lineno", 0)))

    def v_join(self, a, b):
        if a is EMPTY:
            return b
        if b is EMPTY:
            return a
        a, b = self.to_ov(a), self.to_ov(b)
        es = [x.elems for x in (a, b) if x.elems is not None]
        return OV(a.labels | b.labels, elems=self.jn(*es) if es else None, kind=a.kind if a.kind == b.kind else None)

    def key(self, v):
        if isinstance(v, OV):
            return ("OV", tuple(sorted(map(str, v.labels))), self.key(v.elems) if v.elems is not None else None, v.kind)
        if isinstance(v, ObjV):
            return ("O", v.cls, str(v.tag), tuple(sorted((k, self.key(x)) for k, x in v.attrs.items())))
        return super().key(v)

    # ------------------------------------------------------------------ calls
    def call_repo_raw(self, func, selfobj, args, kwargs, n, env, ctx):
        r = super().call_repo_raw(func, selfobj, args, kwargs, n, env, ctx)
        if getattr(func, "cached", False) and r is not None and not (isinstance(r, OV) and r.labels == {IMM}):
            # memoised: every call hands out the same object, which lives in module-level cache storage
            return OV([("G", func.qname + " (memoised result)")], elems=r.elems if isinstance(r, OV) else None)
        return r

    def h_call_opaque(self, fv, n, args, kwargs, env, ctx):
        # user callables are trusted not to mutate their arguments (DESIGN.md 1.4).  What they return may be storage
        # they keep (a replayed residual vector, a shared buffer): label ('U', ...) - reading is fine, writing is not
        src = norm(n.func)[:40] if isinstance(n, ast.Call) else "callable"
        return OV([("U", src)])

    def h_call_method(self, recv, attr, n, args, kwargs, env, ctx):
        if isinstance(recv, ObjV):
            return FRESH
        if isinstance(recv, TupleV):
            recv = self.to_ov(recv)
        r = self.to_ov(recv)
        pos = [a for a in args if not (isinstance(a, tuple) and len(a) == 2 and a[0] == "*")]
        if attr in api.GENERATOR_MUTATING and (pos or "x" in kwargs) and not (r.elems is not None) and attr == "shuffle":
            # rng.shuffle(x) writes x
            self.write(ctx, n, self.to_ov(pos[0] if pos else kwargs["x"]), "rng.shuffle", n.args[0] if n.args else None)
            return OV([IMM])
        if attr in api.MUTATING_METHODS and not (r.labels == {IMM}):
            if attr == "sort" and False:
                pass
            self.write(ctx, n, r, "." + attr + "()", n.func.value)
            if attr in ("append", "add", "insert", "extend", "update", "setdefault") and pos:
                newe = pos[-1] if attr != "extend" and attr != "update" else elem_of(self.to_ov(pos[-1]))
                if newe is not None:
                    nv = OV(r.labels, elems=self.jn(r.elems, newe) if r.elems is not None else newe, kind=r.kind)
                    self.rebind(n.func.value, nv, env, ctx)
            if attr in ("pop", "popitem", "setdefault"):
                return r.elems if r.elems is not None else OV(maybe(r.labels))
            return OV([IMM])
        for k, v in kwargs.items():
            if k == "out":
                self.write(ctx, n, self.to_ov(v), "out=", None)
        if attr == "astype":
            cp = kwargs.get("copy")
            if cp is not None and not (isinstance(cp, OV) and False):
                # astype(..., copy=False) may return the array itself
                kwn = [k for k in n.keywords if k.arg == "copy"]
                if kwn and isinstance(kwn[0].value, ast.Constant) and kwn[0].value.value is False:
                    return OV(maybe(r.labels), kind="arr")
            return OV([F], kind="arr")
        if attr in ("copy", "tolist", "flatten", "sum", "mean", "all", "any", "dot", "max", "min", "round", "nonzero",
                    "cumsum", "argsort", "argmax", "argmin", "to_numpy", "multiply", "apply", "union", "intersection",
                    "difference", "join", "format", "split", "strip", "index", "count", "issubset", "issuperset"):
            if attr in ("copy", "union", "intersection", "difference") and r.elems is not None:
                return OV([F], elems=r.elems, kind=r.kind)       # shallow copy shares the elements
            if attr in ("sum", "mean", "all", "any", "max", "min", "index", "count", "issubset", "issuperset") and not kwargs and not pos:
                return OV([F])
            return OV([F], kind="arr" if attr in ("argsort", "nonzero", "tolist") else None)
        if attr in api.ALIAS_METHODS:
            if attr in ("values", "items", "keys"):
                if attr == "items":
                    return OV([F], elems=TupleV([IMMV, r.elems if r.elems is not None else OV(maybe(r.labels))]))
                return OV([F], elems=r.elems if r.elems is not None else OV(maybe(r.labels)))
            if attr == "get":
                return r.elems if r.elems is not None else OV(maybe(r.labels))
            return OV(r.labels, r.elems)
        if attr in api.GENERATOR_DRAWS:
            return OV([F], kind="arr")
        if caller_owned(r.labels):
            # unknown method on a caller-owned object: result may be a part of it
            return OV(maybe(r.labels))
        return FRESH

    def h_call_ext(self, d, n, args, kwargs, env, ctx):
        pos = [a for a in args if not (isinstance(a, tuple) and len(a) == 2 and a[0] == "*")]
        a0 = self.to_ov(pos[0]) if pos and not isinstance(pos[0], (Closure, FuncRef, ExtRef, ClassRef, BoundMethod)) else None
        for k, v in kwargs.items():
            if k == "out" and not isinstance(v, (Closure, FuncRef)):
                self.write(ctx, n, self.to_ov(v), "out=", None)
        if d in api.MUTATING_FUNCS and len(pos) > api.MUTATING_FUNCS[d]:
            self.write(ctx, n, self.to_ov(pos[api.MUTATING_FUNCS[d]]), d, n.args[api.MUTATING_FUNCS[d]])
            return OV([IMM])
        if d in ("filter", "map", "functools.reduce", "sorted", "max", "min") and any(isinstance(a, (Closure, FuncRef, BoundMethod)) for a in list(pos) + list(kwargs.values())):
            data = [self.to_ov(a) for a in pos if not isinstance(a, (Closure, FuncRef, BoundMethod))]
            el = self.jn(*[x.elems if x.elems is not None else elem_of(x) for x in data]) if data else FRESH
            for a in list(pos) + list(kwargs.values()):
                if isinstance(a, (Closure, FuncRef, BoundMethod)):
                    k = len((a.node if isinstance(a, Closure) else a.func.node).args.args)
                    try:
                        self.apply(a, [el] * k, {}, n, env, ctx)
                    except Inconclusive:
                        pass
            return OV([F], elems=el, kind="arr")
        if d in api.ALIAS_FUNCS and a0 is not None:
            if d == "numpy.diag":
                return OV([F])
            return OV(a0.labels, a0.elems, kind="arr")
        if d in api.IMMUTABLE_FUNCS:
            if d == "tuple" and a0 is not None:
                return OV([F], elems=a0.elems if a0.elems is not None else None)
            return OV([IMM], kind="int" if d in ("len", "int", "round", "bool", "abs", "min", "max", "sum") else None)
        if d in ("list", "set", "frozenset", "sorted", "dict", "reversed", "iter", "enumerate", "zip", "copy.copy",
                 "itertools.combinations", "itertools.product", "itertools.permutations", "itertools.chain") and a0 is not None:
            if d == "enumerate":
                return OV([F], elems=TupleV([IMMV, a0.elems if a0.elems is not None else elem_of(a0)]))
            if d == "zip":
                return OV([F], elems=TupleV([(self.to_ov(a).elems if self.to_ov(a).elems is not None else elem_of(self.to_ov(a))) for a in pos]))
            if d.startswith("itertools."):
                # tuples of elements of the argument(s); the elements of an immutable sequence (range(n)) are integers
                inner = a0.elems if a0.elems is not None else (IMMV if a0.labels == {IMM} else elem_of(a0))
                return OV([F], elems=OV([F], elems=inner))
            return OV([F], elems=a0.elems if a0.elems is not None else (elem_of(a0) if caller_owned(a0.labels) else None),
                      kind="arr")
        if d in ("list", "set", "dict", "frozenset") and not pos:
            return OV([F], elems=EMPTY, kind="arr" if d == "list" else None)
        if d == "range":
            return OV([F], elems=IMMV, kind="arr")
        if d == "numpy.array" and a0 is not None:
            # np.array copies numbers; an object array keeps references to the element objects
            kw = [k for k in n.keywords if k.arg == "copy"]
            if kw and isinstance(kw[0].value, ast.Constant) and kw[0].value.value is False:
                return OV(maybe(a0.labels), kind="arr")
            return OV([F], kind="arr")
        if d in ("numpy.where", "numpy.unravel_index", "numpy.nonzero"):
            if len(pos) >= 3:
                return OV([F], kind="arr")
            return OV([F], elems=OV([F], kind="arr"), kind="arr")
        if d == "numpy.empty" or d == "numpy.zeros" or d == "numpy.ones":
            kw = [k for k in n.keywords if k.arg == "dtype"]
            if kw and norm(kw[0].value) in ("object", "np.object_", "numpy.object_", "'object'", "'O'"):
                return OV([F], elems=EMPTY, kind="arr")      # object array: keeps references
            return OV([F], kind="arr")
        if d in ("isinstance", "type", "print", "id", "callable", "hash", "str", "repr", "time.time", "numpy.shape", "numpy.ndim"):
            return OV([IMM])
        if d.endswith("Error") or d == "Exception":
            return FRESH
        return OV([F], kind="arr" if d.startswith("numpy.") else None)


# ====================================================================== driver
def analyse_entry(O, func):
    """analyse one public function with its parameters owned by the caller"""
    ctx = O.module_ctx(func.module)
    bound = {}
    for p in func.params:
        if p in SCALAR_PARAMS:
            bound[p] = OV([IMM], kind="int")
        elif p in ELEM_SCALAR.get(func.qname, ()):
            bound[p] = OV([("P", p)], elems=IMMV)
        elif p in CONTAINER_PARAMS.get(func.qname, ()):
            bound[p] = OV([("P", p)], elems=OV([("PE", p)]))
        else:
            bound[p] = OV([("P", p)], elems=None)
        d = func.defaults.get(p)
        if d is not None and not isinstance(d, ast.Constant) and p not in SCALAR_PARAMS:
            bound[p] = OV([("P", p), ("D", p)])
    if func.vararg:
        bound[func.vararg] = OV([F], elems=OV([("P", func.vararg)]))
    obj = ObjV(func.module, func.cls, {}, tag="self") if func.is_method else None
    summ = O.summary(func, obj, bound, {}, ctx, func.node)
    return summ, obj
