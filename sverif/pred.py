"""Normal forms for scalar expressions and predicates over SYM terms (GUARD, RANGE, MNF-scalar).

poly(t)   -> {monomial: Fraction}  with monomial = sorted tuple of atom terms (commutative)
npred(t, polarity) -> canonical predicate:
    ('>0', poly) ('>=0', poly) ('==0', poly) ('!=0', poly)
    ('nonempty', x) ('empty', x) ('and', frozenset) ('or', frozenset) ('atom', term, polarity)
so that  a > b, b < a, not a <= b  are one form (DESIGN.md 3.8).
"""
from fractions import Fraction

from .sym import is_const, fmt

TRANSPARENT = {"int", "float", "numpy.int_", "numpy.float64", "numpy.asarray", "numpy.array"}


def pconst(c):
    return {(): Fraction(c)} if c != 0 else {}


def padd(x, y, s=1):
    r = dict(x)
    for k, v in y.items():
        r[k] = r.get(k, 0) + s * v
        if r[k] == 0:
            del r[k]
    return r


def pmul(x, y):
    r = {}
    for k1, v1 in x.items():
        for k2, v2 in y.items():
            k = tuple(sorted(k1 + k2, key=repr))
            r[k] = r.get(k, 0) + v1 * v2
            if r[k] == 0:
                del r[k]
    return r


def pkey(p):
    return tuple(sorted(((k, v) for k, v in p.items()), key=repr))


def pfmt(p):
    if not p:
        return "0"
    out = []
    for k, v in sorted(p.items(), key=repr):
        mon = "*".join(fmt(a) for a in k)
        out.append(("%s*%s" % (v, mon)) if mon and v != 1 else (mon or str(v)))
    return " + ".join(out)


def poly(t, atomize=None):
    """polynomial normal form of a scalar term; non-arithmetic sub-terms become atoms"""
    if not isinstance(t, tuple):
        return {((("const", t),),): Fraction(1)}
    k = t[0]
    if k == "const":
        v = t[1]
        if isinstance(v, bool):
            return pconst(int(v))
        if isinstance(v, int):
            return pconst(v)
        if isinstance(v, float):
            return pconst(Fraction(v).limit_denominator(10**12)) if v == v and abs(v) != float("inf") else {((t,)): Fraction(1)}
        return {(t,): Fraction(1)}
    if k == "binop":
        op, l, r = t[1], t[2], t[3]
        if op == "+":
            return padd(poly(l, atomize), poly(r, atomize))
        if op == "-":
            return padd(poly(l, atomize), poly(r, atomize), -1)
        if op == "*":
            return pmul(poly(l, atomize), poly(r, atomize))
        if op == "/":
            d = poly(r, atomize)
            if list(d.keys()) == [()]:
                return {m: c / d[()] for m, c in poly(l, atomize).items()}
        if op == "//" and is_const(r, 2):
            # n(n-1) // 2 is n(n-1) / 2: a product of consecutive integers is even
            num = poly(l, atomize)
            mons = {m: c for m, c in num.items()}
            if len(mons) == 2:
                lin = [m for m in mons if len(m) == 1]
                sq = [m for m in mons if len(m) == 2 and m[0] == m[1]]
                if len(lin) == 1 and len(sq) == 1 and sq[0][0] == lin[0][0] and mons[sq[0]] == 1 and abs(mons[lin[0]]) == 1:
                    return {m: c / 2 for m, c in num.items()}
        if op == "**" and is_const(r) and isinstance(r[1], int) and 0 <= r[1] <= 4:
            p = pconst(1)
            for _ in range(r[1]):
                p = pmul(p, poly(l, atomize))
            return p
        return {(t,): Fraction(1)}
    if k == "unop" and t[1] == "neg":
        return {m: -c for m, c in poly(t[2], atomize).items()}
    if k == "unop" and t[1] == "pos":
        return poly(t[2], atomize)
    if k == "ext" and t[1] in TRANSPARENT and len(t[2]) == 1 and not t[3]:
        return poly(t[2][0], atomize)
    if k == "default":
        return poly(t[2], atomize)
    if atomize is not None:
        a = atomize(t)
        if a is not None:
            return a
    if k == "sub" and isinstance(t[1], tuple) and t[1][0] == "attr" and t[1][2] == "shape" and is_const(t[2], 0):
        t = ("ext", "len", (t[1][1],), ())          # x.shape[0] is len(x)
    return {(t,): Fraction(1)}


def is_len(t):
    return isinstance(t, tuple) and t[0] == "ext" and t[1] == "len" and len(t[2]) == 1


def _single_len(p, sign=1):
    """p == sign*len(x) (+0)  -> x"""
    if len(p) == 1:
        (m, c), = p.items()
        if len(m) == 1 and is_len(m[0]) and c == sign:
            return m[0][2][0]
    return None


def _cmp(op, l, r, pol, atomize):
    if not pol:
        op = {"==": "!=", "!=": "==", "<": ">=", "<=": ">", ">": "<=", ">=": "<", "is": "is not", "is not": "is",
              "in": "not in", "not in": "in"}[op]
    if op in ("is", "is not", "==", "!=") and (is_const(r, True, False) or is_const(l, True, False)):
        c, x = (r, l) if is_const(r, True, False) else (l, r)
        if isinstance(x, tuple) and x[0] in ("call", "ext", "method", "unop", "bool", "cmp"):
            want = c[1] if op in ("is", "==") else (not c[1])
            return npred(x, want, atomize)
    if op in ("in", "not in") and isinstance(r, tuple) and len(r) == 2 and r[0] in ("list", "tuple", "set") and 0 < len(r[1]) <= 4 and \
            all(isinstance(x, tuple) and x and x[0] in ("extref", "const") for x in r[1]):
        # x in [a, b]  is  x == a or x == b   (types, constants): one spelling for membership in a short literal and a chain of tests
        parts = frozenset(_cmp("==" if op == "in" else "!=", l, x, True, atomize) for x in r[1])
        if len(parts) == 1:
            return next(iter(parts))
        return ("or" if op == "in" else "and", parts)
    if op in ("is", "is not", "in", "not in"):
        return ("atom", ("cmp", op.replace("not ", "").replace(" not", ""), l, r), "not" not in op)
    # emptiness idioms
    for a, b in ((l, r), (r, l)):
        if (b == ("ext", "set", (), ()) or b == ("list", ()) or b == ("set", ()) or b == ("tuple", ())) and op in ("==", "!="):
            return ("empty", a) if op == "==" else ("nonempty", a)
    d = padd(poly(l, atomize), poly(r, atomize), -1)      # l - r
    if op == ">":
        res = (">0", d)
    elif op == ">=":
        res = (">=0", d)
    elif op == "<":
        res = (">0", {m: -c for m, c in d.items()})
    elif op == "<=":
        res = (">=0", {m: -c for m, c in d.items()})
    elif op == "==":
        res = ("==0", canon_sign(d))
    else:
        res = ("!=0", canon_sign(d))
    # len(x) > 0, len(x) >= 1, len(x) != 0  -> nonempty(x);   len(x) == 0, len(x) <= 0, len(x) < 1 -> empty(x)
    kind, p = res
    x = _single_len(p)
    if x is not None and kind in (">0", "!=0"):
        return ("nonempty", x)
    if x is not None and kind == "==0":
        return ("empty", x)
    x = _single_len(padd(p, pconst(1)))          # len(x) - 1 >= 0
    if x is not None and kind == ">=0":
        return ("nonempty", x)
    x = _single_len(p, -1)                       # -len(x) >= 0
    if x is not None and kind == ">=0":
        return ("empty", x)
    x = _single_len(padd(p, pconst(-1)), -1)     # 1 - len(x) > 0
    if x is not None and kind == ">0":
        return ("empty", x)
    return (kind, pkey(p))


def canon_sign(d):
    """== and != are symmetric: fix the sign of the leading coefficient"""
    if not d:
        return d
    lead = sorted(d.items(), key=repr)[0][1]
    return d if lead > 0 else {m: -c for m, c in d.items()}


def npred(t, pol=True, atomize=None):
    if not isinstance(t, tuple):
        return ("atom", t, pol)
    k = t[0]
    if k == "unop" and t[1] == "not":
        return npred(t[2], not pol, atomize)
    if k == "unop" and t[1] == "truth":
        return npred(t[2], pol, atomize)
    if k == "bool":
        kind = t[1]
        if not pol:
            kind = "or" if kind == "and" else "and"
        parts = frozenset(npred(x, pol, atomize) for x in t[2])
        flat = set()
        for p in parts:
            if p[0] == kind:
                flat |= set(p[1])
            else:
                flat.add(p)
        if len(flat) == 1:
            return next(iter(flat))
        return (kind, frozenset(flat))
    if k == "cmp":
        return _cmp(t[1], t[2], t[3], pol, atomize)
    if k == "const":
        return ("const", bool(t[1]) == pol)
    if is_len(t):
        return ("nonempty", t[2][0]) if pol else ("empty", t[2][0])
    if k == "ext" and t[1] == "bool" and len(t[2]) == 1:
        return npred(t[2][0], pol, atomize)
    if is_collection(t):
        # `if pa(j, A):` / `if sinks_list:` - the truth value of a built-in set / list / dict is "it is not empty"
        return ("nonempty", t) if pol else ("empty", t)
    return ("atom", t, pol)


SET_VALUED = {"pa", "ch", "neighbors", "adj", "na", "an", "desc", "ancestors", "descendants", "chain_component", "vstructures"}


def is_collection(t):
    """a term that is certainly a built-in collection: a display, set(...) / list(...) / sorted(...), set algebra on such terms, or one of the
    repository's node-set helpers (they all `return set(...)`)"""
    if not isinstance(t, tuple) or not t:
        return False
    if t[0] in ("set", "list", "dict"):
        return True
    if t[0] == "ext" and t[1] in ("set", "list", "sorted", "frozenset", "dict", "tuple") and len(t) == 4:
        return True
    if t[0] == "call" and isinstance(t[1], str) and t[1].startswith("sempler.utils.") and t[1].rsplit(".", 1)[-1] in SET_VALUED:
        return True
    if t[0] == "binop" and t[1] in ("&", "|", "-", "^") and len(t) == 4:
        return is_collection(t[2]) and is_collection(t[3])
    return False


def conj(path, atomize=None):
    """normal form of a path condition (conjunction of (term, polarity))"""
    parts = set()
    for c, pol in path:
        p = npred(c, pol, atomize)
        if p[0] == "and":
            parts |= set(p[1])
        elif p == ("const", True):
            continue
        else:
            parts.add(p)
    return frozenset(parts)


def pred_fmt(p):
    k = p[0]
    if k in (">0", ">=0", "==0", "!=0"):
        return "%s %s" % (pfmt(dict(p[1])), {">0": "> 0", ">=0": ">= 0", "==0": "== 0", "!=0": "!= 0"}[k])
    if k in ("nonempty", "empty"):
        return "%s(%s)" % (k, fmt(p[1]))
    if k in ("and", "or"):
        return "(" + (" %s " % k).join(sorted(pred_fmt(x) for x in p[1])) + ")"
    if k == "atom":
        return ("" if p[2] else "not ") + fmt(p[1])
    return repr(p)


# ---------------------------------------------------------------------------- rational functions
def ratpoly(t, atomize=None):
    """(numerator, denominator) polynomials of a scalar term built with + - * / and constants"""
    if isinstance(t, tuple) and t and t[0] == "binop" and t[1] in ("+", "-", "*", "/"):
        (n1, d1), (n2, d2) = ratpoly(t[2], atomize), ratpoly(t[3], atomize)
        if t[1] == "*":
            return pmul(n1, n2), pmul(d1, d2)
        if t[1] == "/":
            return pmul(n1, d2), pmul(d1, n2)
        s = 1 if t[1] == "+" else -1
        return padd(pmul(n1, d2), pmul(n2, d1), s), pmul(d1, d2)
    if isinstance(t, tuple) and t and t[0] == "unop" and t[1] == "neg":
        n, d = ratpoly(t[2], atomize)
        return {m: -c for m, c in n.items()}, d
    if isinstance(t, tuple) and t and t[0] == "default":
        return ratpoly(t[2], atomize)
    if isinstance(t, tuple) and t and t[0] == "ext" and t[1] in TRANSPARENT and len(t[2]) == 1 and t[1] == "float":
        return ratpoly(t[2][0], atomize)
    return poly(t, atomize), pconst(1)


def rat_equal(a, b):
    (n1, d1), (n2, d2) = a, b
    return pkey(pmul(n1, d2)) == pkey(pmul(n2, d1))


# ---------------------------------------------------------------------------- small propositional simplifier
def negate(p):
    k = p[0]
    if k == "atom":
        return ("atom", p[1], not p[2])
    if k == ">0":
        return (">=0", pkey({m: -c for m, c in dict(p[1]).items()}))
    if k == ">=0":
        return (">0", pkey({m: -c for m, c in dict(p[1]).items()}))
    if k == "==0":
        return ("!=0", p[1])
    if k == "!=0":
        return ("==0", p[1])
    if k == "nonempty":
        return ("empty", p[1])
    if k == "empty":
        return ("nonempty", p[1])
    if k == "and":
        return ("or", frozenset(negate(x) for x in p[1]))
    if k == "or":
        return ("and", frozenset(negate(x) for x in p[1]))
    if k == "const":
        return ("const", not p[1])
    return ("not", p)


def resolve(cnf):
    """unit resolution on a conjunction (frozenset) of predicates"""
    cnf = set(cnf)
    changed = True
    while changed:
        changed = False
        units = {p for p in cnf if p[0] not in ("or", "and")}
        for p in list(cnf):
            if p[0] == "and":
                cnf.remove(p)
                cnf |= set(p[1])
                changed = True
            elif p[0] == "or":
                rest = frozenset(x for x in p[1] if negate(x) not in units)
                if any(x in units for x in rest):
                    cnf.remove(p)
                    changed = True
                elif rest != p[1]:
                    cnf.remove(p)
                    if len(rest) == 1:
                        cnf.add(next(iter(rest)))
                    elif rest:
                        cnf.add(("or", rest))
                    else:
                        cnf.add(("const", False))
                    changed = True
    return frozenset(cnf)


def canon_sign_key(d):
    return pkey(canon_sign(d))


# ----------------------------------------------------------------------------- propositional comparison of guard sets
def _atom_of(p):
    """(canonical atom, polarity) of a literal predicate: a literal and its negation share the atom"""
    q = negate(p)
    a, b = repr(p), repr(q)
    return (p, True) if a <= b else (q, False)


def prop_eval(f, val):
    k = f[0]
    if k == "and":
        return all(prop_eval(x, val) for x in f[1])
    if k == "or":
        return any(prop_eval(x, val) for x in f[1])
    if k == "const":
        return bool(f[1])
    a, pol = _atom_of(f)
    return val[a] if pol else not val[a]


def prop_atoms(f, out=None):
    out = set() if out is None else out
    if f[0] in ("and", "or"):
        for x in f[1]:
            prop_atoms(x, out)
    elif f[0] != "const":
        out.add(_atom_of(f)[0])
    return out


def prop_compare(got, want, max_atoms=10):
    """Two formulas over literal predicates (nested ('and'|'or', frozenset) / literals), their atoms taken as independent
    propositions: 'equal' when they agree on every valuation, 'different' (+ a separating valuation) when both use the same atoms
    and disagree somewhere, 'unknown' when `got` mentions atoms `want` does not know (nothing can be said) or there are too many."""
    ag, aw = prop_atoms(got), prop_atoms(want)
    atoms = sorted(ag | aw, key=repr)
    if len(atoms) > max_atoms:
        return "unknown", "too many atoms"
    import itertools
    diff = None
    for bits in itertools.product([False, True], repeat=len(atoms)):
        val = dict(zip(atoms, bits))
        if prop_eval(got, val) != prop_eval(want, val):
            diff = val
            break
    if diff is None:
        return "equal", None
    if ag <= aw:
        return "different", {pred_fmt(a): v for a, v in diff.items()}
    return "unknown", "conditions outside the documented ones: %s" % sorted(pred_fmt(a) for a in ag - aw)[:3]
