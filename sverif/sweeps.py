"""Generic sweeps run in the thorough tier over *all* functions of both packages.  Findings outside a
property's anchors are printed as NOTE lines and recorded in the evidence; they are not verdicts."""
import ast

from .loader import Inconclusive, norm
from .sym import Sym, run_function, walk, T


def float_equalities(prog):
    """== / != between a floating-point reduction and a constant"""
    out = []
    RED = {"sum", "mean", "prod", "dot", "std", "var"}
    for f in prog.funcs.values():
        for n in ast.walk(f.node):
            if isinstance(n, ast.Compare) and len(n.ops) == 1 and isinstance(n.ops[0], (ast.Eq, ast.NotEq)):
                for a, b in ((n.left, n.comparators[0]), (n.comparators[0], n.left)):
                    if isinstance(b, ast.Constant) and isinstance(b.value, (int, float)) and not isinstance(b.value, bool) and b.value != 0:
                        calls = [c for c in ast.walk(a) if isinstance(c, ast.Call) and isinstance(c.func, ast.Attribute) and c.func.attr in RED]
                        if calls and not any(isinstance(x, ast.Compare) for x in ast.walk(a) if x is not n):
                            out.append("float-equality: %s:%d %s — %s" % (f.module.relpath, n.lineno, f.qname, norm(n)[:80]))
    return sorted(set(out))


def unbound_reads(prog):
    out = []
    for f in sorted(prog.funcs.values(), key=lambda f: f.qname):
        if f.module.name == "sempler.plot":
            continue
        try:
            S = Sym(prog)
            summ, _ = run_function(S, f)
        except Inconclusive:
            continue
        except RecursionError:
            continue
        names = set()
        for fact in S.facts:
            if fact.qname != f.qname:
                continue
            for t in [getattr(fact, "value", None), getattr(fact, "term", None)] + list(getattr(fact, "args", []) or []):
                if t is None:
                    continue
                for x in walk(t):
                    if isinstance(x, tuple) and len(x) == 2 and x[0] == "unbound":
                        names.add(x[1])
        for nm in sorted(names):
            if nm in f.locals:
                out.append("possibly-undefined: %s %s — local `%s` may be read before assignment on some path" % (f.module.relpath, f.qname, nm))
    return out


def unused_parameters(prog):
    out = []
    for f in prog.funcs.values():
        if f.module.name == "sempler.plot" or f.name.startswith("eg"):
            continue
        used = {n.id for n in ast.walk(f.node) if isinstance(n, ast.Name) and isinstance(n.ctx, ast.Load)}
        for p in f.params:
            if p not in used and p not in ("self", "verbose", "debug"):
                out.append("unused-parameter: %s %s — `%s` is never read" % (f.module.relpath, f.qname, p))
    return sorted(out)


def run(prog, pid):
    notes = []
    if pid in ("C17", "C03", "C18"):
        notes += float_equalities(prog)
    if pid in ("C17", "C14"):
        notes += unbound_reads(prog)
    if pid in ("C12", "C19"):
        notes += unused_parameters(prog)
    return notes
