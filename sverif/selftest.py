"""Checker self-validation (DESIGN.md section 6): a catalogue of single-edit variants of the
repository, applied to a scratch copy (never to /repo), that must make the named property's
check fire at the named rule ('fire') or leave its verdict unchanged ('silent').

    python -m sverif.selftest [--prop C03] [--jobs 16] [--list]

The property verdicts always come from /repo itself; this only tests the checker.
"""
import argparse
import contextlib
import io
import json
import os
import shutil
import sys
import tempfile
from concurrent.futures import ProcessPoolExecutor

from .loader import repo_root, PACKAGES
from .catalogue import VARIANTS


def make_scratch(root, edits):
    d = tempfile.mkdtemp(prefix="sverif_scratch_")
    for pkg in PACKAGES:
        src = os.path.join(root, pkg)
        dst = os.path.join(d, pkg)
        os.makedirs(dst)
        for fn in os.listdir(src):
            if fn.endswith(".py"):
                shutil.copy(os.path.join(src, fn), os.path.join(dst, fn))
    for e in edits:
        if e[0] == "@unparse_all":
            import ast as _ast
            for pkg in PACKAGES:
                for fn in os.listdir(os.path.join(d, pkg)):
                    if fn.endswith(".py"):
                        pth = os.path.join(d, pkg, fn)
                        txt = _ast.unparse(_ast.parse(open(pth).read())) + "\n"
                        open(pth, "w").write(txt)
            continue
        if e[0] == "@rename_locals":
            ok = rename_locals(os.path.join(d, e[1]), e[2])
            if not ok:
                shutil.rmtree(d, ignore_errors=True)
                return None
            continue
        rel, old, new = e
        p = os.path.join(d, rel)
        with open(p) as f:
            s = f.read()
        if s.count(old) != 1:
            shutil.rmtree(d, ignore_errors=True)
            return None
        with open(p, "w") as f:
            f.write(s.replace(old, new))
    return d


def rename_locals(path, qual):
    """behaviour-preserving rewrite: every local variable (not a parameter) of function `qual`
    (`func` or `Class.method`) is renamed, and the function is re-emitted by ast.unparse (comments and layout lost)"""
    import ast
    src = open(path).read()
    tree = ast.parse(src)
    target = None
    parts = qual.split(".")
    for n in tree.body:
        if len(parts) == 1 and isinstance(n, ast.FunctionDef) and n.name == parts[0]:
            target = n
        if len(parts) == 2 and isinstance(n, ast.ClassDef) and n.name == parts[0]:
            for k in n.body:
                if isinstance(k, ast.FunctionDef) and k.name == parts[1]:
                    target = k
    if target is None:
        return False
    from .loader import local_names
    params = {a.arg for a in target.args.posonlyargs + target.args.args + target.args.kwonlyargs}
    if target.args.vararg:
        params.add(target.args.vararg.arg)
    if target.args.kwarg:
        params.add(target.args.kwarg.arg)
    locs = {x for x in local_names(target) if x not in params}
    # comprehension / lambda variables are renamed too when they do not clash
    mapping = {x: x + "_rn" for x in locs}

    class R(ast.NodeTransformer):
        def visit_Name(self, node):
            if node.id in mapping:
                node.id = mapping[node.id]
            return node

        def visit_ExceptHandler(self, node):
            if node.name in mapping:
                node.name = mapping[node.name]
            self.generic_visit(node)
            return node
    seg = ast.get_source_segment(src, target)
    R().visit(target)
    new = ast.unparse(target)
    indent = " " * target.col_offset
    new = ("\n" + indent).join(new.split("\n"))
    if src.count(seg) != 1:
        return False
    open(path, "w").write(src.replace(seg, new))
    return True


def run_variant(v):
    from .__main__ import run_property
    root = repo_root()
    d = make_scratch(root, v["edits"])
    if d is None:
        return dict(v, outcome="skipped", detail="edit no longer applies")
    try:
        import ast
        for e in v["edits"]:
            if e[0] == "@unparse_all":
                continue
            rel = e[1] if e[0] == "@rename_locals" else e[0]
            ast.parse(open(os.path.join(d, rel)).read())
        buf = io.StringIO()
        with contextlib.redirect_stdout(buf), contextlib.redirect_stderr(buf):
            code, rep = run_property(v["prop"], "quick", write=False, root=d)
        fired = sorted({i.rule for i in rep.instances if i.verdict == "VIOLATION"})
        inc = sorted({i.rule for i in rep.instances if i.verdict == "INCONCLUSIVE"})
        if v["expect"] == "fire":
            ok = code == 1 and (not v.get("rule") or any(r.startswith(v["rule"]) for r in fired))
            if not ok and code == 2 and v.get("accept_inconclusive"):
                ok = True
        else:
            ok = code == 0
        return dict(id=v["id"], prop=v["prop"], expect=v["expect"], outcome="ok" if ok else "FAILED", code=code,
                    fired=fired, inconclusive=inc, detail=buf.getvalue()[-600:] if not ok else "")
    except SyntaxError as e:
        return dict(id=v["id"], prop=v["prop"], expect=v["expect"], outcome="skipped", detail="variant does not parse: %s" % e)
    finally:
        shutil.rmtree(d, ignore_errors=True)


def run_catalogue(prop=None, jobs=None, ids=None):
    todo = [v for v in VARIANTS if (prop is None or v["prop"] == prop) and (ids is None or v["id"] in ids)]
    jobs = jobs or min(16, os.cpu_count() or 4)
    if jobs > 1 and len(todo) > 1:
        with ProcessPoolExecutor(max_workers=jobs) as ex:
            res = list(ex.map(run_variant, todo))
    else:
        res = [run_variant(v) for v in todo]
    return res


def summarise(res):
    out = {"applied": sum(1 for r in res if r["outcome"] != "skipped"),
           "detected": sum(1 for r in res if r["expect"] == "fire" and r["outcome"] == "ok"),
           "silent": sum(1 for r in res if r["expect"] == "silent" and r["outcome"] == "ok"),
           "skipped": sum(1 for r in res if r["outcome"] == "skipped"),
           "failed": [r["id"] for r in res if r["outcome"] == "FAILED"]}
    return out


def main():
    ap = argparse.ArgumentParser()
    ap.add_argument("--prop")
    ap.add_argument("--jobs", type=int)
    ap.add_argument("--list", action="store_true")
    ap.add_argument("--id", action="append")
    a = ap.parse_args()
    if a.list:
        for v in VARIANTS:
            print(v["id"], v["prop"], v["expect"], v.get("rule", ""), "-", v["what"])
        return 0
    res = run_catalogue(a.prop, a.jobs, a.id)
    for r in res:
        print("%-34s %-4s %-6s -> %-7s code=%s fired=%s" % (r["id"], r["prop"], r["expect"], r["outcome"], r.get("code"), r.get("fired")))
        if r["outcome"] == "FAILED":
            print("    " + r.get("detail", "").replace("\n", "\n    "))
    s = summarise(res)
    print(json.dumps(s))
    return 1 if s["failed"] else 0


if __name__ == "__main__":
    sys.exit(main())
