"""Checker self-validation (DESIGN.md section 6): a catalogue of single-edit variants of the
repository, applied to a scratch copy (never to /repo), that must make the named property's
check fire at the named rule ('fire') or leave its verdict unchanged ('silent').

    python -m sverif.selftest [--prop C03] [--jobs 16] [--list]

The property verdicts always come from /repo itself; this only tests the checker.
"""
import argparse
import contextlib
import io
import json
import os
import shutil
import sys
import tempfile
from concurrent.futures import ProcessPoolExecutor

from .loader import repo_root, PACKAGES
from .catalogue import VARIANTS


def make_scratch(root, edits):
    d = tempfile.mkdtemp(prefix="sverif_scratch_")
    for pkg in PACKAGES:
        src = os.path.join(root, pkg)
        dst = os.path.join(d, pkg)
        os.makedirs(dst)
        for fn in os.listdir(src):
            if fn.endswith(".py"):
                shutil.copy(os.path.join(src, fn), os.path.join(dst, fn))
    for e in edits:
        if e[0] == "@unparse_all":
            import ast as _ast
            for pkg in PACKAGES:
                for fn in os.listdir(os.path.join(d, pkg)):
                    if fn.endswith(".py"):
                        pth = os.path.join(d, pkg, fn)
                        txt = _ast.unparse(_ast.parse(open(pth).read())) + "\n"
                        open(pth, "w").write(txt)
            continue
        if e[0] == "@newfile":
            with open(os.path.join(d, e[1]), "w") as fh:
                fh.write(e[2])
            continue
        if e[0] in TREE_TRANSFORMS:
            import ast as _ast
            srcs = {}
            for pkg in PACKAGES:
                for fn in os.listdir(os.path.join(d, pkg)):
                    if fn.endswith(".py"):
                        pth = os.path.join(d, pkg, fn)
                        srcs[pth] = _ast.parse(open(pth).read())
            TREE_TRANSFORMS[e[0]](srcs)
            for pth, tree in srcs.items():
                _ast.fix_missing_locations(tree)
                open(pth, "w").write(_ast.unparse(tree) + "\n")
            continue
        if e[0] == "@rename_locals":
            ok = rename_locals(os.path.join(d, e[1]), e[2])
            if not ok:
                shutil.rmtree(d, ignore_errors=True)
                return None
            continue
        rel, old, new = e
        p = os.path.join(d, rel)
        with open(p) as f:
            s = f.read()
        if s.count(old) != 1:
            shutil.rmtree(d, ignore_errors=True)
            return None
        with open(p, "w") as f:
            f.write(s.replace(old, new))
    return d


def _t_kwargs_calls(srcs):
    """every call `f(a, b)` to a module-level function of the same file (or `utils.f` / `sempler.utils.f`) is re-spelled with
    keyword arguments in reversed order: f(y=b, x=a).  Python evaluates the arguments in another order, which matters only
    for arguments with side effects: calls with a call among the arguments are left alone."""
    import ast
    defs = {}
    for pth, tree in srcs.items():
        defs[pth] = {n.name: n for n in tree.body if isinstance(n, ast.FunctionDef)}
    utils = next((v for k, v in defs.items() if k.endswith("sempler/utils.py")), {})

    class R(ast.NodeTransformer):
        def __init__(self, local):
            self.local = local

        def visit_Call(self, node):
            self.generic_visit(node)
            fd = None
            if isinstance(node.func, ast.Name):
                fd = self.local.get(node.func.id)
            elif isinstance(node.func, ast.Attribute) and ast.unparse(node.func.value) in ("utils", "sempler.utils"):
                fd = utils.get(node.func.attr)
            if fd is None or fd.args.vararg or fd.args.kwarg or fd.args.posonlyargs:
                return node
            if any(isinstance(a, ast.Starred) for a in node.args) or any(k.arg is None for k in node.keywords):
                return node
            if any(isinstance(x, (ast.Call, ast.Lambda, ast.NamedExpr)) for a in list(node.args) + [k.value for k in node.keywords] for x in ast.walk(a)):
                return node
            names = [a.arg for a in fd.args.args]
            if len(node.args) > len(names):
                return node
            kws = [ast.keyword(arg=n_, value=a) for n_, a in zip(names, node.args)] + list(node.keywords)
            node.args = []
            node.keywords = list(reversed(kws))
            return node
    for pth, tree in srcs.items():
        R(defs[pth]).visit(tree)


def _t_kwonly(srcs):
    """modernised signatures: in every module-level function and method the parameters that have a default become keyword-only
    (`def f(a, b, *, c=1, d=None)`); every call inside the tree that passed one of them by position (calls by plain name to a
    function of the same file, `utils.f` / `sempler.utils.f`, and method calls whose name is unique among the tree's methods)
    is re-spelled with keywords"""
    import ast
    defs = {}          # path -> {name: (original positional names, number kept positional)}
    methods = {}       # method name -> [(names without self, kept)]
    for pth, tree in srcs.items():
        defs[pth] = {}
        for n in tree.body:
            fns = [(n, False)] if isinstance(n, ast.FunctionDef) else [(m, True) for m in n.body if isinstance(m, ast.FunctionDef)] if isinstance(n, ast.ClassDef) else []
            for fn, is_m in fns:
                a = fn.args
                if a.vararg or a.kwarg or a.kwonlyargs or a.posonlyargs or not a.defaults or fn.decorator_list or fn.name == "__init__":
                    continue        # (constructors are called through super().__init__(...) / Class(...): left as they are)
                names = [x.arg for x in a.args]
                keep = len(a.args) - len(a.defaults)
                if is_m:
                    methods.setdefault(fn.name, []).append((names[1:], keep - 1))
                else:
                    defs[pth][fn.name] = (names, keep)
                a.kwonlyargs = a.args[keep:]
                a.kw_defaults = list(a.defaults)
                a.args = a.args[:keep]
                a.defaults = []
    utils = next((v for k, v in defs.items() if k.endswith("sempler/utils.py")), {})

    class R(ast.NodeTransformer):
        def __init__(self, local):
            self.local = local

        def visit_Call(self, node):
            self.generic_visit(node)
            sig = None
            if isinstance(node.func, ast.Name):
                sig = self.local.get(node.func.id)
            elif isinstance(node.func, ast.Attribute) and ast.unparse(node.func.value) in ("utils", "sempler.utils"):
                sig = utils.get(node.func.attr)
            elif isinstance(node.func, ast.Attribute) and len(methods.get(node.func.attr, ())) == 1 and node.func.attr not in ("copy", "sum", "all", "any", "append"):
                sig = methods[node.func.attr][0]
            if sig is None or any(isinstance(a_, ast.Starred) for a_ in node.args):
                return node
            names, keep = sig
            if len(node.args) > keep and len(node.args) <= len(names):
                extra = node.args[keep:]
                node.keywords = [ast.keyword(arg=nm, value=v) for nm, v in zip(names[keep:], extra)] + list(node.keywords)
                node.args = node.args[:keep]
            return node
    for pth, tree in srcs.items():
        R(defs[pth]).visit(tree)


def _t_extra_param(srcs):
    """every module-level function and method gets an additional trailing keyword parameter `_verbose=False` that only guards a
    logger call"""
    import ast
    for tree in srcs.values():
        k = 0
        while k < len(tree.body) and (isinstance(tree.body[k], ast.Expr) and isinstance(getattr(tree.body[k], "value", None), ast.Constant)
                                       or isinstance(tree.body[k], ast.ImportFrom) and tree.body[k].module == "__future__"):
            k += 1
        tree.body[k:k] = ast.parse("import logging as _verif_logging2\n").body
        for n in tree.body:
            fns = [n] if isinstance(n, ast.FunctionDef) else [m for m in n.body if isinstance(m, ast.FunctionDef)] if isinstance(n, ast.ClassDef) else []
            for fn in fns:
                a = fn.args
                if a.vararg or a.kwarg or fn.decorator_list:
                    continue
                if a.kwonlyargs:
                    a.kwonlyargs.append(ast.arg(arg="_verbose"))
                    a.kw_defaults.append(ast.Constant(False))
                else:
                    a.args.append(ast.arg(arg="_verbose"))
                    a.defaults.append(ast.Constant(False))
                j = 1 if (fn.body and isinstance(fn.body[0], ast.Expr) and isinstance(fn.body[0].value, ast.Constant) and isinstance(fn.body[0].value.value, str)) else 0
                fn.body[j:j] = ast.parse("if _verbose:\n    _verif_logging2.getLogger(__name__).info('in %%s', %r)\n" % fn.name).body


def _t_try_reraise(srcs):
    """the body of every module-level function and method is wrapped in `try: ... except Exception: <log>; raise` (errors are logged
    and passed on unchanged)"""
    import ast
    for tree in srcs.values():
        k = 0
        while k < len(tree.body) and (isinstance(tree.body[k], ast.Expr) and isinstance(getattr(tree.body[k], "value", None), ast.Constant)
                                       or isinstance(tree.body[k], ast.ImportFrom) and tree.body[k].module == "__future__"):
            k += 1
        tree.body[k:k] = ast.parse("import logging as _verif_logging3\n").body
        for n in tree.body:
            fns = [n] if isinstance(n, ast.FunctionDef) else [m for m in n.body if isinstance(m, ast.FunctionDef)] if isinstance(n, ast.ClassDef) else []
            for fn in fns:
                if fn.decorator_list:
                    continue
                j = 1 if (fn.body and isinstance(fn.body[0], ast.Expr) and isinstance(fn.body[0].value, ast.Constant) and isinstance(fn.body[0].value.value, str)) else 0
                body = fn.body[j:]
                if not body:
                    continue
                handler = ast.ExceptHandler(type=ast.Name("Exception", ast.Load()), name=None,
                                            body=ast.parse("_verif_logging3.getLogger(__name__).debug('error in %%s', %r)\nraise\n" % fn.name).body)
                fn.body[j:] = [ast.Try(body=body, handlers=[handler], orelse=[], finalbody=[])]


def _t_np_functions(srcs):
    """array methods spelled as numpy functions: x.sum(...) -> np.sum(x, ...), x.all() / x.any() / x.max() / x.min() likewise,
    x.T -> np.transpose(x)"""
    import ast

    class R(ast.NodeTransformer):
        def visit_Call(self, node):
            self.generic_visit(node)
            if isinstance(node.func, ast.Attribute) and node.func.attr in ("sum", "all", "any", "max", "min") and \
                    not (isinstance(node.func.value, ast.Name) and node.func.value.id in ("np", "numpy", "self", "rng")):
                return ast.copy_location(ast.Call(func=ast.Attribute(value=ast.Name("np", ast.Load()), attr=node.func.attr, ctx=ast.Load()),
                                                  args=[node.func.value] + node.args, keywords=node.keywords), node)
            return node

        def visit_Attribute(self, node):
            self.generic_visit(node)
            if node.attr == "T" and isinstance(node.ctx, ast.Load):
                return ast.copy_location(ast.Call(func=ast.Attribute(value=ast.Name("np", ast.Load()), attr="transpose", ctx=ast.Load()), args=[node.value], keywords=[]), node)
            return node
    for pth, tree in srcs.items():
        if "import numpy as np" in ast.unparse(tree)[:6000]:
            R().visit(tree)


def _t_small_idioms(srcs):
    """the small re-spellings of refactoring round 6, applied everywhere at once: np.where(m)[0] -> np.flatnonzero(m); X[a, :] -> X[a]
    (trailing full slice dropped) when `a` is a plain name; x ** 0.5 -> pow(x, 0.5); len(f(...)) > 0 / == 0 on the node-set helpers -> truthiness;
    `while len(xs) > 0` -> `while xs` for names"""
    import ast
    SETS = {"pa", "ch", "neighbors", "adj", "na"}

    class R(ast.NodeTransformer):
        def visit_Subscript(self, node):
            self.generic_visit(node)
            v = node.value
            if isinstance(node.ctx, ast.Load) and isinstance(node.slice, ast.Constant) and node.slice.value == 0 and isinstance(v, ast.Call) and \
                    isinstance(v.func, ast.Attribute) and v.func.attr == "where" and isinstance(v.func.value, ast.Name) and v.func.value.id == "np" and len(v.args) == 1 and not v.keywords:
                return ast.copy_location(ast.Call(func=ast.Attribute(value=ast.Name("np", ast.Load()), attr="flatnonzero", ctx=ast.Load()), args=v.args, keywords=[]), node)
            if isinstance(node.ctx, ast.Load) and isinstance(node.slice, ast.Tuple) and len(node.slice.elts) == 2 and isinstance(node.slice.elts[0], ast.Name) and \
                    isinstance(node.slice.elts[1], ast.Slice) and node.slice.elts[1].lower is None and node.slice.elts[1].upper is None and node.slice.elts[1].step is None:
                return ast.copy_location(ast.Subscript(value=node.value, slice=node.slice.elts[0], ctx=node.ctx), node)
            return node

        def visit_BinOp(self, node):
            self.generic_visit(node)
            if isinstance(node.op, ast.Pow) and isinstance(node.right, ast.Constant) and node.right.value == 0.5:
                return ast.copy_location(ast.Call(func=ast.Name("pow", ast.Load()), args=[node.left, node.right], keywords=[]), node)
            return node

        def _truthy(self, test):
            # len(X) > 0 -> X ; len(X) == 0 -> not X   for X a call of a node-set helper or (in a while test) a plain name
            if isinstance(test, ast.Compare) and len(test.ops) == 1 and isinstance(test.left, ast.Call) and isinstance(test.left.func, ast.Name) and test.left.func.id == "len" and \
                    len(test.left.args) == 1 and isinstance(test.comparators[0], ast.Constant) and test.comparators[0].value == 0:
                x = test.left.args[0]
                if isinstance(x, ast.Call) and isinstance(x.func, ast.Name) and x.func.id in SETS:
                    if isinstance(test.ops[0], ast.Gt):
                        return x
                    if isinstance(test.ops[0], ast.Eq):
                        return ast.UnaryOp(ast.Not(), x)
            return test

        def visit_If(self, node):
            self.generic_visit(node)
            node.test = ast.copy_location(self._truthy(node.test), node.test)
            return node
    for pth, tree in srcs.items():
        if "import numpy as np" in ast.unparse(tree)[:6000]:
            R().visit(tree)


def _t_flip_comparisons(srcs):
    """every ordered comparison with its operands swapped: a < b -> b > a, a <= b -> b >= a (and the reverse); == / != with a literal 0 on the right
    become literal-first (x == 0 -> 0 == x is left alone: only ordered comparisons are flipped, they have no short-circuit / evaluation-order effect
    on the names and attribute reads they are applied to here)"""
    import ast
    FLIP = {ast.Lt: ast.Gt, ast.Gt: ast.Lt, ast.LtE: ast.GtE, ast.GtE: ast.LtE}

    def pure(e):
        return all(isinstance(x, (ast.Name, ast.Constant, ast.Attribute, ast.Load, ast.BinOp, ast.operator, ast.UnaryOp, ast.unaryop, ast.Subscript, ast.Tuple, ast.Slice)) or
                   (isinstance(x, ast.Call) and isinstance(x.func, ast.Name) and x.func.id == "len") for x in ast.walk(e))

    class R(ast.NodeTransformer):
        def visit_Compare(self, node):
            self.generic_visit(node)
            if len(node.ops) == 1 and type(node.ops[0]) in FLIP and pure(node.left) and pure(node.comparators[0]):
                return ast.copy_location(ast.Compare(left=node.comparators[0], ops=[FLIP[type(node.ops[0])]()], comparators=[node.left]), node)
            return node
    for pth, tree in srcs.items():
        R().visit(tree)


def _t_else_after_exit(srcs):
    """`if c: ...; return / raise / continue / break  else: REST` -> the same `if` followed by REST as straight-line code"""
    import ast

    def fix(stmts):
        out = []
        for st in stmts:
            for fld in ("body", "orelse", "finalbody"):
                sub = getattr(st, fld, None)
                if isinstance(sub, list) and sub and isinstance(sub[0], ast.stmt):
                    setattr(st, fld, fix(sub))
            for h in getattr(st, "handlers", []) or []:
                h.body = fix(h.body)
            if isinstance(st, ast.If) and st.orelse and st.body and isinstance(st.body[-1], (ast.Return, ast.Raise, ast.Continue, ast.Break)) and \
                    not (len(st.orelse) == 1 and isinstance(st.orelse[0], ast.If)):
                rest = st.orelse
                st.orelse = []
                out.append(st)
                out.extend(rest)
            else:
                out.append(st)
        return out
    for pth, tree in srcs.items():
        for n in ast.walk(tree):
            if isinstance(n, (ast.FunctionDef, ast.AsyncFunctionDef)):
                n.body = fix(n.body)


def _t_comp_to_loop(srcs):
    """`name = [elt for t in it if c]` (one generator, a statement of its own inside a function) -> `name = []` + a for-loop with append;
    `dict((k, v) for ...)` -> `{k: v for ...}`"""
    import ast

    class D(ast.NodeTransformer):
        def visit_Call(self, node):
            self.generic_visit(node)
            if isinstance(node.func, ast.Name) and node.func.id == "dict" and len(node.args) == 1 and not node.keywords and isinstance(node.args[0], ast.GeneratorExp) and \
                    isinstance(node.args[0].elt, ast.Tuple) and len(node.args[0].elt.elts) == 2:
                g = node.args[0]
                return ast.copy_location(ast.DictComp(key=g.elt.elts[0], value=g.elt.elts[1], generators=g.generators), node)
            return node

    def fix(stmts, locals_):
        out = []
        for st in stmts:
            for fld in ("body", "orelse", "finalbody"):
                sub = getattr(st, fld, None)
                if isinstance(sub, list) and sub and isinstance(sub[0], ast.stmt) and not isinstance(st, (ast.FunctionDef, ast.AsyncFunctionDef, ast.ClassDef)):
                    setattr(st, fld, fix(sub, locals_))
            if isinstance(st, ast.Assign) and len(st.targets) == 1 and isinstance(st.targets[0], ast.Name) and isinstance(st.value, ast.ListComp) and len(st.value.generators) == 1 \
                    and not st.value.generators[0].is_async:
                g = st.value.generators[0]
                tnames = {x.id for x in ast.walk(g.target) if isinstance(x, ast.Name)}
                used_in_iter = {x.id for x in ast.walk(g.iter) if isinstance(x, ast.Name)}
                nm = st.targets[0].id
                # the comprehension's own variables must not clash with anything else in the function, nor the list name occur in its own definition
                if not (tnames & locals_) and nm not in used_in_iter and nm not in {x.id for x in ast.walk(st.value) if isinstance(x, ast.Name)}:
                    body = [ast.Expr(ast.Call(func=ast.Attribute(value=ast.Name(nm, ast.Load()), attr="append", ctx=ast.Load()), args=[st.value.elt], keywords=[]))]
                    for c in reversed(g.ifs):
                        body = [ast.If(test=c, body=body, orelse=[])]
                    out.append(ast.copy_location(ast.Assign(targets=[ast.Name(nm, ast.Store())], value=ast.List(elts=[], ctx=ast.Load())), st))
                    out.append(ast.copy_location(ast.For(target=g.target, iter=g.iter, body=body, orelse=[]), st))
                    continue
            out.append(st)
        return out
    for pth, tree in srcs.items():
        D().visit(tree)
        for n in ast.walk(tree):
            if isinstance(n, (ast.FunctionDef, ast.AsyncFunctionDef)):
                own = set()
                for x in ast.walk(n):
                    if isinstance(x, ast.Name) and not isinstance(x.ctx, ast.Load):
                        own.add(x.id)
                    if isinstance(x, ast.arg):
                        own.add(x.arg)
                # names bound only inside comprehensions are not function locals
                comp_only = set()
                for x in ast.walk(n):
                    if isinstance(x, (ast.ListComp, ast.SetComp, ast.DictComp, ast.GeneratorExp)):
                        for g in x.generators:
                            comp_only |= {y.id for y in ast.walk(g.target) if isinstance(y, ast.Name)}
                outside = set()
                for x in ast.walk(n):
                    if isinstance(x, (ast.For, ast.Assign, ast.AugAssign, ast.With)):
                        tg = [x.target] if isinstance(x, (ast.For, ast.AugAssign)) else (x.targets if isinstance(x, ast.Assign) else [i.optional_vars for i in x.items if i.optional_vars is not None])
                        for t_ in tg:
                            outside |= {y.id for y in ast.walk(t_) if isinstance(y, ast.Name)}
                outside |= {a.arg for a in ast.walk(n) if isinstance(a, ast.arg)}
                n.body = fix(n.body, outside)


def _t_logic_spellings(srcs):
    """boolean re-spellings in `if` / `while` / conditional-expression tests: `a and b` -> `not (not a or not b)`, `a or b` -> `not (not a and not b)` (De Morgan; the
    short-circuit order is kept), `x is not None` -> `not x is None`, `x not in y` -> `not x in y`, `x != y` -> `not x == y` for names and literals"""
    import ast

    def neg(e):
        if isinstance(e, ast.UnaryOp) and isinstance(e.op, ast.Not):
            return e.operand
        return ast.UnaryOp(ast.Not(), e)

    def respell(test):
        if isinstance(test, ast.BoolOp) and len(test.values) == 2:
            other = ast.Or() if isinstance(test.op, ast.And) else ast.And()
            return ast.UnaryOp(ast.Not(), ast.BoolOp(op=other, values=[neg(respell_cmp(v)) for v in test.values]))
        return respell_cmp(test)

    def respell_cmp(test):
        if isinstance(test, ast.Compare) and len(test.ops) == 1:
            op = test.ops[0]
            simple = all(isinstance(x, (ast.Name, ast.Constant)) for x in [test.left] + test.comparators)
            if isinstance(op, ast.IsNot):
                return ast.UnaryOp(ast.Not(), ast.Compare(left=test.left, ops=[ast.Is()], comparators=test.comparators))
            if isinstance(op, ast.NotIn):
                return ast.UnaryOp(ast.Not(), ast.Compare(left=test.left, ops=[ast.In()], comparators=test.comparators))
            if isinstance(op, ast.NotEq) and simple:
                return ast.UnaryOp(ast.Not(), ast.Compare(left=test.left, ops=[ast.Eq()], comparators=test.comparators))
        return test

    class R(ast.NodeTransformer):
        def visit_If(self, node):
            self.generic_visit(node)
            node.test = ast.copy_location(respell(node.test), node.test)
            return node

        def visit_While(self, node):
            self.generic_visit(node)
            node.test = ast.copy_location(respell(node.test), node.test)
            return node

        def visit_IfExp(self, node):
            self.generic_visit(node)
            node.test = ast.copy_location(respell(node.test), node.test)
            return node
    for pth, tree in srcs.items():
        R().visit(tree)


def _t_local_aliases(srcs):
    """in every method, an attribute of self that the method only reads is read once into a local at the top (`covariance_ = self.covariance`) and the
    local is used instead; `len(M)` of a matrix-named parameter is `M.shape[0]`; `np.zeros_like(X)` is `np.zeros(X.shape, dtype=X.dtype)`"""
    import ast
    MATS = {"A", "G", "P", "W", "pdag", "ordered", "labelled", "M"}

    class L(ast.NodeTransformer):
        def __init__(self, params):
            self.params = params

        def visit_Call(self, node):
            self.generic_visit(node)
            if isinstance(node.func, ast.Name) and node.func.id == "len" and len(node.args) == 1 and isinstance(node.args[0], ast.Name) and node.args[0].id in MATS & self.params:
                return ast.copy_location(ast.Subscript(value=ast.Attribute(value=node.args[0], attr="shape", ctx=ast.Load()), slice=ast.Constant(0), ctx=ast.Load()), node)
            if isinstance(node.func, ast.Attribute) and node.func.attr == "zeros_like" and isinstance(node.func.value, ast.Name) and node.func.value.id == "np" and \
                    len(node.args) == 1 and not node.keywords and isinstance(node.args[0], ast.Name):
                x = node.args[0]
                return ast.copy_location(ast.Call(func=ast.Attribute(value=ast.Name("np", ast.Load()), attr="zeros", ctx=ast.Load()),
                                                  args=[ast.Attribute(value=x, attr="shape", ctx=ast.Load())],
                                                  keywords=[ast.keyword(arg="dtype", value=ast.Attribute(value=ast.Name(x.id, ast.Load()), attr="dtype", ctx=ast.Load()))]), node)
            return node

    def alias_attrs(fn):
        if not fn.args.args or fn.args.args[0].arg != "self" or fn.name == "__init__":
            return
        stored = {n.attr for n in ast.walk(fn) if isinstance(n, ast.Attribute) and isinstance(n.value, ast.Name) and n.value.id == "self" and not isinstance(n.ctx, ast.Load)}
        called = {n.func.attr for n in ast.walk(fn) if isinstance(n, ast.Call) and isinstance(n.func, ast.Attribute) and isinstance(n.func.value, ast.Name) and n.func.value.id == "self"}
        # written through a subscript / mutated in place: not a plain read
        mutated = {n.value.attr for n in ast.walk(fn) if isinstance(n, ast.Subscript) and not isinstance(n.ctx, ast.Load) and isinstance(n.value, ast.Attribute) and
                   isinstance(n.value.value, ast.Name) and n.value.value.id == "self"}
        reads = [n for n in ast.walk(fn) if isinstance(n, ast.Attribute) and isinstance(n.value, ast.Name) and n.value.id == "self" and isinstance(n.ctx, ast.Load)]
        names = sorted({n.attr for n in reads} - stored - called - mutated)
        taken = {n.id for n in ast.walk(fn) if isinstance(n, ast.Name)} | {a.arg for a in ast.walk(fn) if isinstance(a, ast.arg)}
        names = [a for a in names if a + "_" not in taken and not a.startswith("__")]
        if not names:
            return

        class A(ast.NodeTransformer):
            def visit_Attribute(self, node):
                self.generic_visit(node)
                if isinstance(node.value, ast.Name) and node.value.id == "self" and isinstance(node.ctx, ast.Load) and node.attr in names:
                    return ast.copy_location(ast.Name(node.attr + "_", ast.Load()), node)
                return node

            def visit_FunctionDef(self, node):
                return node if node is not fn else self.generic_visit(node) or node

            def visit_Lambda(self, node):
                return node
        doc = fn.body[:1] if fn.body and isinstance(fn.body[0], ast.Expr) and isinstance(fn.body[0].value, ast.Constant) and isinstance(fn.body[0].value.value, str) else []
        rest = fn.body[len(doc):]
        holder = ast.Module(body=rest, type_ignores=[])
        A().visit(holder)
        pre = [ast.Assign(targets=[ast.Name(a + "_", ast.Store())], value=ast.Attribute(value=ast.Name("self", ast.Load()), attr=a, ctx=ast.Load())) for a in names]
        fn.body = doc + pre + holder.body
    for pth, tree in srcs.items():
        for n in ast.walk(tree):
            if isinstance(n, (ast.FunctionDef, ast.AsyncFunctionDef)):
                params = {a.arg for a in n.args.args + n.args.kwonlyargs}
                holder = ast.Module(body=n.body, type_ignores=[])
                L(params).visit(holder)
                n.body = holder.body
        for n in ast.walk(tree):
            if isinstance(n, ast.ClassDef):
                for m in n.body:
                    if isinstance(m, ast.FunctionDef):
                        alias_attrs(m)


def _t_method_spellings(srcs):
    """`M.copy()` -> `np.copy(M)` for matrix-named variables; `x.sum(axis=0)` -> `x.sum(0)`; set algebra on the node-set helpers as methods:
    `pa(..) & ch(..)` -> `pa(..).intersection(ch(..))`, `|` -> union, `-` -> difference (left operand a helper call or set(...))"""
    import ast
    MATS = {"A", "G", "P", "W", "pdag", "ordered", "labelled", "M", "supergraph", "cpdag"}
    SETS = {"pa", "ch", "neighbors", "adj", "na", "set"}
    METH = {ast.BitAnd: "intersection", ast.BitOr: "union", ast.Sub: "difference"}

    class R(ast.NodeTransformer):
        def visit_Call(self, node):
            self.generic_visit(node)
            if isinstance(node.func, ast.Attribute) and node.func.attr == "copy" and not node.args and not node.keywords and isinstance(node.func.value, ast.Name) and node.func.value.id in MATS:
                return ast.copy_location(ast.Call(func=ast.Attribute(value=ast.Name("np", ast.Load()), attr="copy", ctx=ast.Load()), args=[node.func.value], keywords=[]), node)
            if isinstance(node.func, ast.Attribute) and node.func.attr == "sum" and not node.args and len(node.keywords) == 1 and node.keywords[0].arg == "axis" and \
                    isinstance(node.keywords[0].value, ast.Constant):
                return ast.copy_location(ast.Call(func=node.func, args=[node.keywords[0].value], keywords=[]), node)
            return node

        def visit_BinOp(self, node):
            self.generic_visit(node)
            l = node.left
            if type(node.op) in METH and isinstance(l, ast.Call) and isinstance(l.func, ast.Name) and l.func.id in SETS:
                return ast.copy_location(ast.Call(func=ast.Attribute(value=l, attr=METH[type(node.op)], ctx=ast.Load()), args=[node.right], keywords=[]), node)
            return node
    for pth, tree in srcs.items():
        if "import numpy as np" in ast.unparse(tree)[:6000]:
            R().visit(tree)


def _t_statement_spellings(srcs):
    """`i += 1` -> `i = i + 1` (name target, constant operand); `return <call or operation>` -> `_res = ...; return _res`; the first
    nested call argument of a plain assignment pulled into a temporary when everything before it is a name or constant;
    `a < b < c` -> `a < b and b < c` for a name/constant b"""
    import ast

    class R(ast.NodeTransformer):
        def __init__(self):
            self.k = 0
            self.gen = False

        def visit_FunctionDef(self, node):
            old = self.gen
            self.gen = any(isinstance(x, (ast.Yield, ast.YieldFrom)) for x in ast.walk(node))
            self.generic_visit(node)
            self.gen = old
            return node

        def visit_Lambda(self, node):
            return node

        def visit_AugAssign(self, node):
            if isinstance(node.target, ast.Name) and isinstance(node.value, ast.Constant) and type(node.value.value) is int:
                return ast.copy_location(ast.Assign(targets=[ast.Name(node.target.id, ast.Store())], value=ast.BinOp(left=ast.Name(node.target.id, ast.Load()), op=node.op, right=node.value)), node)
            return node

        def visit_Return(self, node):
            if node.value is not None and isinstance(node.value, (ast.Call, ast.BinOp, ast.Subscript)) and not self.gen:
                self.k += 1
                nm = "_res%d" % self.k
                return [ast.copy_location(ast.Assign(targets=[ast.Name(nm, ast.Store())], value=node.value), node), ast.copy_location(ast.Return(value=ast.Name(nm, ast.Load())), node)]
            return node

        def visit_Assign(self, node):
            v = node.value
            if isinstance(v, ast.Call) and not v.keywords and len(node.targets) == 1 and isinstance(node.targets[0], ast.Name) and isinstance(v.func, (ast.Name, ast.Attribute)) and \
                    (isinstance(v.func, ast.Name) or isinstance(v.func.value, ast.Name)):
                for i, a in enumerate(v.args):
                    if isinstance(a, ast.Call) and not any(isinstance(x, (ast.Lambda, ast.GeneratorExp, ast.ListComp, ast.Starred)) for x in ast.walk(a)):
                        self.k += 1
                        nm = "_arg%d" % self.k
                        v.args[i] = ast.Name(nm, ast.Load())
                        return [ast.copy_location(ast.Assign(targets=[ast.Name(nm, ast.Store())], value=a), node), node]
                    if not isinstance(a, (ast.Name, ast.Constant)):
                        break
            return node

        def visit_Compare(self, node):
            self.generic_visit(node)
            if len(node.ops) == 2 and isinstance(node.comparators[0], (ast.Name, ast.Constant)):
                b = node.comparators[0]
                return ast.copy_location(ast.BoolOp(op=ast.And(), values=[ast.Compare(left=node.left, ops=[node.ops[0]], comparators=[b]),
                                                                            ast.Compare(left=b, ops=[node.ops[1]], comparators=[node.comparators[1]])]), node)
            return node
    for pth, tree in srcs.items():
        R().visit(tree)


def _t_loop_spellings(srcs):
    """`for i in range(n)` / `range(a, b)` without continue/else -> a counting while loop; `for x in <name>` over a list-valued local
    (assigned from list(...), sorted(...) or a list display in the same function) -> an index loop `for _k in range(len(xs)): x = xs[_k]`"""
    import ast

    def has_continue(body):
        for st_ in body:
            for x in ast.walk(st_):
                if isinstance(x, ast.Continue):
                    return True
        return False

    class R(ast.NodeTransformer):
        def __init__(self):
            self.k = 0
            self.lists = set()

        def visit_FunctionDef(self, node):
            old = self.lists
            self.lists = set()
            stores = {}
            for x in ast.walk(node):
                if isinstance(x, ast.Assign) and len(x.targets) == 1 and isinstance(x.targets[0], ast.Name):
                    v = x.value
                    good = isinstance(v, ast.List) or (isinstance(v, ast.Call) and isinstance(v.func, ast.Name) and v.func.id in ("list", "sorted"))
                    stores.setdefault(x.targets[0].id, []).append(good)
                elif isinstance(x, ast.Name) and isinstance(x.ctx, ast.Store):
                    stores.setdefault(x.id, []).append(None)
            for nm, gs in stores.items():
                real = [g for g in gs if g is not None]
                if real and all(real) and len(real) == len(gs) - len(real):     # every binding is one of the list-valued assignments
                    self.lists.add(nm)
            self.generic_visit(node)
            self.lists = old
            return node

        def visit_For(self, node):
            self.generic_visit(node)
            if node.orelse:
                return node
            if isinstance(node.target, ast.Tuple) and all(isinstance(e, ast.Name) for e in node.target.elts):
                self.k += 1
                e_ = "_e%d" % self.k
                node.body = [ast.copy_location(ast.Assign(targets=[node.target], value=ast.Name(e_, ast.Load())), node)] + node.body
                node.target = ast.Name(e_, ast.Store())
                return node
            if not isinstance(node.target, ast.Name):
                return node
            it = node.iter
            pure = lambda a: isinstance(a, (ast.Name, ast.Constant)) or (isinstance(a, ast.Attribute) and isinstance(a.value, ast.Name)) or \
                (isinstance(a, ast.Call) and isinstance(a.func, ast.Name) and a.func.id == "len" and len(a.args) == 1 and isinstance(a.args[0], ast.Name))
            if isinstance(it, ast.Call) and isinstance(it.func, ast.Name) and it.func.id == "range" and len(it.args) in (1, 2) and not has_continue(node.body) and \
                    all(pure(a) for a in it.args):
                lo = it.args[0] if len(it.args) == 2 else ast.Constant(0)
                hi = it.args[-1]
                i = node.target.id
                written = {x.id for st_ in node.body for x in ast.walk(st_) if isinstance(x, ast.Name) and isinstance(x.ctx, ast.Store)}
                if i in written or any(isinstance(x, ast.Name) and x.id in written for x in ast.walk(hi)) or \
                        any(isinstance(x, ast.Attribute) and isinstance(x.ctx, ast.Store) for st_ in node.body for x in ast.walk(st_)):
                    return node
                init = ast.Assign(targets=[ast.Name(i, ast.Store())], value=lo)
                loop = ast.While(test=ast.Compare(left=ast.Name(i, ast.Load()), ops=[ast.Lt()], comparators=[hi]),
                                 body=node.body + [ast.AugAssign(target=ast.Name(i, ast.Store()), op=ast.Add(), value=ast.Constant(1))], orelse=[])
                return [ast.copy_location(init, node), ast.copy_location(loop, node)]
            if isinstance(it, ast.Name) and it.id in self.lists:
                written = {x.id for st_ in node.body for x in ast.walk(st_) if isinstance(x, ast.Name) and isinstance(x.ctx, ast.Store)}
                mutated = any(isinstance(x, ast.Attribute) and isinstance(x.value, ast.Name) and x.value.id == it.id and x.attr in ("append", "remove", "pop", "extend", "insert", "clear", "sort")
                              for st_ in node.body for x in ast.walk(st_))
                if it.id in written or mutated:
                    return node
                self.k += 1
                k = "_k%d" % self.k
                bind = ast.Assign(targets=[ast.Name(node.target.id, ast.Store())], value=ast.Subscript(value=ast.Name(it.id, ast.Load()), slice=ast.Name(k, ast.Load()), ctx=ast.Load()))
                node.target = ast.Name(k, ast.Store())
                node.iter = ast.Call(func=ast.Name("range", ast.Load()), args=[ast.Call(func=ast.Name("len", ast.Load()), args=[ast.Name(it.id, ast.Load())], keywords=[])], keywords=[])
                node.body = [ast.copy_location(bind, node)] + node.body
                return node
            return node
    for pth, tree in srcs.items():
        R().visit(tree)


def _t_import_styles(srcs):
    """the other way of importing each non-numpy module: `import pkg.mod as m` -> `from pkg import mod as m`; `from mod import f` -> `import mod as _m_mod`
    with `f` -> `_m_mod.f`; `import mod` (top-level module) -> `from mod import a as _mod_a, ...` with `mod.a` -> `_mod_a`"""
    import ast
    for pth, tree in srcs.items():
        if pth.endswith("__init__.py") or pth.endswith("plot.py"):
            continue
        from_names, mod_names = {}, {}
        new_body = []
        for n in tree.body:
            if isinstance(n, ast.Import) and len(n.names) == 1 and n.names[0].name != "numpy":
                al = n.names[0]
                if "." in al.name and al.asname:
                    pkg, mod = al.name.rsplit(".", 1)
                    new_body.append(ast.copy_location(ast.ImportFrom(module=pkg, names=[ast.alias(name=mod, asname=al.asname if al.asname != mod else None)], level=0), n))
                    continue
                if "." not in al.name and not al.asname and al.name in ("itertools", "copy", "warnings"):
                    mod_names[al.name] = n
                    new_body.append(n)
                    continue
            if isinstance(n, ast.ImportFrom) and n.level == 0 and n.module and len(n.names) >= 1 and all(a.name != "*" for a in n.names) and n.module != "numpy":
                alias = "_m_" + n.module.replace(".", "_")
                for a in n.names:
                    from_names[a.asname or a.name] = (alias, a.name)
                new_body.append(ast.copy_location(ast.Import(names=[ast.alias(name=n.module, asname=alias)]), n))
                continue
            new_body.append(n)
        tree.body = new_body
        used = {}

        class R(ast.NodeTransformer):
            def visit_Name(self, node):
                if isinstance(node.ctx, ast.Load) and node.id in from_names:
                    al, nm = from_names[node.id]
                    return ast.copy_location(ast.Attribute(value=ast.Name(al, ast.Load()), attr=nm, ctx=ast.Load()), node)
                return node

            def visit_Attribute(self, node):
                if isinstance(node.value, ast.Name) and node.value.id in mod_names and isinstance(node.ctx, ast.Load):
                    nm = "_%s_%s" % (node.value.id, node.attr)
                    used.setdefault(node.value.id, {})[node.attr] = nm
                    return ast.copy_location(ast.Name(nm, ast.Load()), node)
                self.generic_visit(node)
                return node
        # names imported with `from` must not be rebound anywhere in the module for the rewrite to be meaning-preserving
        bound = {x.id for x in ast.walk(tree) if isinstance(x, ast.Name) and isinstance(x.ctx, ast.Store)} | {a.arg for x in ast.walk(tree) if isinstance(x, ast.arguments)
                                                                                                            for a in x.args + x.kwonlyargs + x.posonlyargs}
        for k in list(from_names):
            if k in bound:
                raise RuntimeError("import_styles: %s rebound" % k)
        for k in list(mod_names):
            if k in bound:
                del mod_names[k]
        R().visit(tree)
        for i, n in enumerate(tree.body):
            if isinstance(n, ast.Import) and len(n.names) == 1 and n.names[0].name in used and not n.names[0].asname:
                m = n.names[0].name
                tree.body[i] = ast.copy_location(ast.ImportFrom(module=m, names=[ast.alias(name=a, asname=nm) for a, nm in sorted(used[m].items())], level=0), n)


def _t_np_constructors(srcs):
    """np.zeros((a, b)) / ones / empty -> the shape as a list; np.arange(n) -> np.arange(0, n); np.logical_and / logical_or / logical_not on
    comparisons -> & / | / ~; np.sum(<comparison>) / (<comparison>).sum() -> np.count_nonzero(<comparison>)"""
    import ast
    isnp = lambda f, names: isinstance(f, ast.Attribute) and isinstance(f.value, ast.Name) and f.value.id == "np" and f.attr in names
    boolish = lambda a: isinstance(a, ast.Compare) or (isinstance(a, ast.BinOp) and isinstance(a.op, (ast.BitAnd, ast.BitOr)) and isinstance(a.left, ast.Compare)) or \
        (isinstance(a, ast.UnaryOp) and isinstance(a.op, ast.Invert))

    class R(ast.NodeTransformer):
        def visit_Call(self, node):
            self.generic_visit(node)
            f = node.func
            if isnp(f, {"zeros", "ones", "empty"}) and node.args and isinstance(node.args[0], ast.Tuple):
                node.args[0] = ast.copy_location(ast.List(elts=node.args[0].elts, ctx=ast.Load()), node.args[0])
            elif isnp(f, {"arange"}) and len(node.args) == 1 and not node.keywords:
                node.args = [ast.Constant(0), node.args[0]]
            elif isnp(f, {"logical_and", "logical_or"}) and len(node.args) == 2 and not node.keywords and all(boolish(a) for a in node.args):
                return ast.copy_location(ast.BinOp(left=node.args[0], op=ast.BitAnd() if f.attr == "logical_and" else ast.BitOr(), right=node.args[1]), node)
            elif isnp(f, {"logical_not"}) and len(node.args) == 1 and boolish(node.args[0]):
                return ast.copy_location(ast.UnaryOp(op=ast.Invert(), operand=node.args[0]), node)
            elif isnp(f, {"sum"}) and len(node.args) == 1 and not node.keywords and isinstance(node.args[0], ast.Compare):
                node.func = ast.copy_location(ast.Attribute(value=ast.Name("np", ast.Load()), attr="count_nonzero", ctx=ast.Load()), f)
            elif isinstance(f, ast.Attribute) and f.attr == "sum" and not node.args and not node.keywords and isinstance(f.value, ast.Compare):
                return ast.copy_location(ast.Call(func=ast.Attribute(value=ast.Name("np", ast.Load()), attr="count_nonzero", ctx=ast.Load()), args=[f.value], keywords=[]), node)
            return node
    for pth, tree in srcs.items():
        if "import numpy as np" in ast.unparse(tree)[:6000]:
            R().visit(tree)


def _t_literal_spellings(srcs):
    """`[]` -> `list()`, `{}` -> `dict()`, `set([a, b])` -> `{a, b}`, `sorted(x)` -> `sorted(list(x))`, every message of a raise re-worded"""
    import ast

    class R(ast.NodeTransformer):
        def visit_List(self, node):
            self.generic_visit(node)
            if not node.elts and isinstance(node.ctx, ast.Load):
                return ast.copy_location(ast.Call(func=ast.Name("list", ast.Load()), args=[], keywords=[]), node)
            return node

        def visit_Dict(self, node):
            self.generic_visit(node)
            if not node.keys:
                return ast.copy_location(ast.Call(func=ast.Name("dict", ast.Load()), args=[], keywords=[]), node)
            return node

        def visit_Call(self, node):
            self.generic_visit(node)
            if isinstance(node.func, ast.Name) and node.func.id == "set" and len(node.args) == 1 and isinstance(node.args[0], ast.List) and node.args[0].elts and \
                    not any(isinstance(e, ast.Starred) for e in node.args[0].elts):
                return ast.copy_location(ast.Set(elts=node.args[0].elts), node)
            if isinstance(node.func, ast.Name) and node.func.id == "sorted" and len(node.args) == 1 and not node.keywords:
                node.args = [ast.Call(func=ast.Name("list", ast.Load()), args=[node.args[0]], keywords=[])]
            return node

        def visit_Raise(self, node):
            self.generic_visit(node)
            if isinstance(node.exc, ast.Call) and node.exc.args and isinstance(node.exc.args[0], ast.Constant) and isinstance(node.exc.args[0].value, str):
                node.exc.args[0] = ast.Constant("Invalid input: " + node.exc.args[0].value)
            return node
    for pth, tree in srcs.items():
        if not pth.endswith("plot.py"):
            R().visit(tree)


def _t_arith_spellings(srcs):
    """operands of + and * swapped when one of them is a numeric constant (`x + 1` -> `1 + x`, `2 * x` -> `x * 2`); `x - 1` -> `x + -1` hmm no:
    kept; `x / 2` -> `x * 0.5`; `x[0:n]` -> `x[:n]`; `x ** 2` -> `x * x` for a plain name x"""
    import ast
    num = lambda a: isinstance(a, ast.Constant) and type(a.value) in (int, float)

    class R(ast.NodeTransformer):
        def visit_BinOp(self, node):
            self.generic_visit(node)
            if isinstance(node.op, (ast.Add, ast.Mult)) and (num(node.left) != num(node.right)):
                node.left, node.right = node.right, node.left
            elif isinstance(node.op, ast.Div) and num(node.right) and node.right.value == 2:
                return ast.copy_location(ast.BinOp(left=node.left, op=ast.Mult(), right=ast.Constant(0.5)), node)
            elif isinstance(node.op, ast.Pow) and num(node.right) and node.right.value == 2 and isinstance(node.left, ast.Name):
                return ast.copy_location(ast.BinOp(left=node.left, op=ast.Mult(), right=ast.Name(node.left.id, ast.Load())), node)
            return node

        def visit_Slice(self, node):
            self.generic_visit(node)
            if num(node.lower) and node.lower.value == 0 and node.step is None:
                node.lower = None
            return node
    for pth, tree in srcs.items():
        if not pth.endswith("plot.py"):
            R().visit(tree)


def _t_defensive_copies(srcs):
    """a defensive copy of every matrix parameter at the top of every module-level function of utils.py that only reads it:
    `A = A.copy()` (parameters named A, P, G, W, pdag without a default, not rebound in the body)"""
    import ast
    MATS = {"A", "P", "G", "W", "pdag", "cpdag"}
    for pth, tree in srcs.items():
        if not pth.endswith("utils.py"):
            continue
        for fn in tree.body:
            if not isinstance(fn, ast.FunctionDef):
                continue
            args = fn.args
            nodef = [a.arg for a in args.args[:len(args.args) - len(args.defaults)]]
            bound = {x.id for x in ast.walk(fn) if isinstance(x, ast.Name) and isinstance(x.ctx, ast.Store)}
            if any(isinstance(x, (ast.Yield, ast.YieldFrom, ast.Lambda)) for x in ast.walk(fn)):
                continue
            k = 1 if fn.body and isinstance(fn.body[0], ast.Expr) and isinstance(fn.body[0].value, ast.Constant) and isinstance(fn.body[0].value.value, str) else 0
            for nm in nodef:
                if nm in MATS and nm not in bound:
                    st_ = ast.Assign(targets=[ast.Name(nm, ast.Store())], value=ast.Call(func=ast.Attribute(value=ast.Name(nm, ast.Load()), attr="copy", ctx=ast.Load()), args=[], keywords=[]))
                    fn.body.insert(k, ast.copy_location(st_, fn.body[min(k, len(fn.body) - 1)]))


def _t_local_snapshots(srcs):
    """every matrix parameter that a utils function only reads is read through a local snapshot: `A_ = A.copy()` first, `A_` wherever `A` stood"""
    import ast
    MATS = {"A", "P", "G", "W", "pdag", "cpdag"}
    for pth, tree in srcs.items():
        if not pth.endswith("utils.py"):
            continue
        for fn in tree.body:
            if not isinstance(fn, ast.FunctionDef):
                continue
            args = fn.args
            nodef = [a.arg for a in args.args[:len(args.args) - len(args.defaults)]]
            bound = {x.id for x in ast.walk(fn) if isinstance(x, ast.Name) and isinstance(x.ctx, ast.Store)}
            if any(isinstance(x, (ast.Yield, ast.YieldFrom, ast.Lambda)) for x in ast.walk(fn)):
                continue
            k = 1 if fn.body and isinstance(fn.body[0], ast.Expr) and isinstance(fn.body[0].value, ast.Constant) and isinstance(fn.body[0].value.value, str) else 0
            for nm in nodef:
                if nm in MATS and nm not in bound:
                    for x in ast.walk(fn):
                        if isinstance(x, ast.Name) and x.id == nm:
                            x.id = nm + "_"
                    st_ = ast.Assign(targets=[ast.Name(nm + "_", ast.Store())], value=ast.Call(func=ast.Attribute(value=ast.Name(nm, ast.Load()), attr="copy", ctx=ast.Load()), args=[], keywords=[]))
                    fn.body.insert(k, ast.copy_location(st_, fn.body[min(k, len(fn.body) - 1)]))


def _t_reorder_defs(srcs):
    """definitions in another order: the undecorated module-level functions of each module permuted among their own slots (reverse alphabetical),
    the undecorated methods of each class likewise"""
    import ast

    def permute(body):
        slots = [i for i, n in enumerate(body) if isinstance(n, ast.FunctionDef) and not n.decorator_list]
        fns = sorted((body[i] for i in slots), key=lambda n: n.name, reverse=True)
        for i, fn in zip(slots, fns):
            body[i] = fn
    for pth, tree in srcs.items():
        permute(tree.body)
        for n in tree.body:
            if isinstance(n, ast.ClassDef):
                permute(n.body)


def _t_validate_inputs(srcs):
    """an input check at the top of every module-level utils function with a matrix parameter A / P / G / pdag:
    `if A.ndim != 2 or A.shape[0] != A.shape[1]: raise ValueError(...)` - every input the properties speak about passes it"""
    import ast
    MATS = {"A", "P", "G", "pdag", "cpdag"}
    for pth, tree in srcs.items():
        if not pth.endswith("utils.py"):
            continue
        for fn in tree.body:
            if not isinstance(fn, ast.FunctionDef) or any(isinstance(x, (ast.Yield, ast.YieldFrom)) for x in ast.walk(fn)):
                continue
            args = fn.args
            nodef = [a.arg for a in args.args[:len(args.args) - len(args.defaults)]]
            k = 1 if fn.body and isinstance(fn.body[0], ast.Expr) and isinstance(fn.body[0].value, ast.Constant) and isinstance(fn.body[0].value.value, str) else 0
            for nm in nodef:
                if nm in MATS and (fn.name, nm) not in (("separates", "A"), ("allclose", "A"), ("nonzero", "A"), ("member", "A")):
                    st_ = ast.parse("if %s.ndim != 2 or %s.shape[0] != %s.shape[1]:\n    raise ValueError('%s must be a square matrix')\n" % (nm, nm, nm, nm)).body[0]
                    for x in ast.walk(st_):
                        ast.copy_location(x, fn.body[min(k, len(fn.body) - 1)]) if hasattr(x, "lineno") or isinstance(x, (ast.expr, ast.stmt)) else None
                    fn.body.insert(k, st_)
                    break


def _t_np_operators(srcs):
    """operators spelled as numpy functions where that is the same for every operand the code can see: a @ b -> np.matmul(a, b), np.eye(n) -> np.identity(n)"""
    import ast

    class R(ast.NodeTransformer):
        def visit_BinOp(self, node):
            self.generic_visit(node)
            if isinstance(node.op, ast.MatMult):
                return ast.copy_location(ast.Call(func=ast.Attribute(value=ast.Name("np", ast.Load()), attr="matmul", ctx=ast.Load()), args=[node.left, node.right], keywords=[]), node)
            return node

        def visit_Call(self, node):
            self.generic_visit(node)
            if isinstance(node.func, ast.Attribute) and node.func.attr == "eye" and isinstance(node.func.value, ast.Name) and node.func.value.id == "np" and len(node.args) == 1 and not node.keywords:
                node.func.attr = "identity"
            return node
    for pth, tree in srcs.items():
        if "import numpy as np" in ast.unparse(tree)[:6000]:
            R().visit(tree)


def _t_swap_branches(srcs):
    """every `if c: A else: B` becomes `if not c: B else: A`"""
    import ast

    class R(ast.NodeTransformer):
        def visit_If(self, node):
            self.generic_visit(node)
            if node.orelse:
                t = node.test
                nt = t.operand if isinstance(t, ast.UnaryOp) and isinstance(t.op, ast.Not) else ast.UnaryOp(ast.Not(), t)
                return ast.copy_location(ast.If(ast.copy_location(nt, t), node.orelse, node.body), node)
            return node
    for tree in srcs.values():
        R().visit(tree)
        ast.fix_missing_locations(tree)


def _t_name_conditions(srcs):
    """the test of every `if` statement (not elif) is first assigned to a local: `_cond7 = <test>; if _cond7:`; `return <expr>` becomes `_result = <expr>; return _result`"""
    import ast

    class R(ast.NodeTransformer):
        def __init__(self):
            self.k = 0

        def block(self, stmts):
            out = []
            for st in stmts:
                st = self.visit(st)
                if isinstance(st, ast.If) and not isinstance(st.test, (ast.Name, ast.Constant)):
                    self.k += 1
                    nm = "_cond%d" % self.k
                    out.append(ast.copy_location(ast.Assign([ast.Name(nm, ast.Store())], st.test), st))
                    st.test = ast.copy_location(ast.Name(nm, ast.Load()), st.test)
                elif isinstance(st, ast.Return) and st.value is not None and not isinstance(st.value, (ast.Name, ast.Constant)):
                    out.append(ast.copy_location(ast.Assign([ast.Name("_result", ast.Store())], st.value), st))
                    st.value = ast.copy_location(ast.Name("_result", ast.Load()), st)
                out.append(st)
            return out

        def generic_visit(self, node):
            for fld in ("body", "orelse", "finalbody"):
                v = getattr(node, fld, None)
                if isinstance(v, list) and v and isinstance(v[0], ast.stmt):
                    # the else suite of an if that holds a single if is an `elif`: its test must stay where it is evaluated
                    if fld == "orelse" and isinstance(node, ast.If) and len(v) == 1 and isinstance(v[0], ast.If):
                        self.generic_visit(v[0])
                        continue
                    setattr(node, fld, self.block(v))
            for h in getattr(node, "handlers", []) or []:
                h.body = self.block(h.body)
            return node
    for tree in srcs.values():
        R().generic_visit(tree)
        ast.fix_missing_locations(tree)


def _t_ternary_to_if(srcs):
    """`x = a if c else b` (one plain name on the left) becomes an if / else statement with two assignments"""
    import ast

    class R(ast.NodeTransformer):
        def visit_Assign(self, node):
            if len(node.targets) == 1 and isinstance(node.targets[0], ast.Name) and isinstance(node.value, ast.IfExp):
                v = node.value
                mk = lambda e: ast.copy_location(ast.Assign([ast.Name(node.targets[0].id, ast.Store())], e), node)
                return ast.copy_location(ast.If(v.test, [mk(v.body)], [mk(v.orelse)]), node)
            return node
    for tree in srcs.values():
        R().visit(tree)
        ast.fix_missing_locations(tree)


def _t_private_module(srcs):
    """the small graph helpers of sempler/utils.py (pa, ch, neighbors, adj, only_directed, only_undirected, skeleton, matrix_block) live in a new private
    module sempler/_graph_helpers.py and are imported back into utils under their own names"""
    import ast
    import os
    moved = ("pa", "ch", "neighbors", "adj", "only_directed", "only_undirected", "skeleton", "matrix_block")
    up = [p_ for p_ in srcs if p_.endswith(os.path.join("sempler", "utils.py"))]
    if not up:
        return
    tree = srcs[up[0]]
    defs = [n for n in tree.body if isinstance(n, ast.FunctionDef) and n.name in moved]
    names = [n.name for n in defs]
    # only functions that use nothing of utils but numpy and each other
    ok = []
    for n in defs:
        free = {x.id for x in ast.walk(n) if isinstance(x, ast.Name) and isinstance(x.ctx, ast.Load)}
        local = {x.id for x in ast.walk(n) if isinstance(x, ast.Name) and isinstance(x.ctx, ast.Store)} | {a.arg for a in n.args.args}
        import builtins
        foreign = {x for x in free - local if not hasattr(builtins, x) and x not in ("np",) and x not in names}
        if not foreign:
            ok.append(n)
    if not ok:
        return
    new_mod = ast.Module(body=[ast.Import([ast.alias("numpy", "np")])] + ok, type_ignores=[])
    tree.body = [n for n in tree.body if n not in ok]
    k = max([i for i, n in enumerate(tree.body) if isinstance(n, (ast.Import, ast.ImportFrom))] or [0])
    tree.body.insert(k + 1, ast.ImportFrom("sempler._graph_helpers", [ast.alias(n.name, None) for n in ok], 0))
    srcs[os.path.join(os.path.dirname(up[0]), "_graph_helpers.py")] = new_mod


def _t_strip_docs_annotate(srcs):
    """docstrings removed, every parameter annotated with `object`, every function given a return annotation"""
    import ast
    for tree in srcs.values():
        for n in ast.walk(tree):
            if isinstance(n, (ast.FunctionDef, ast.ClassDef, ast.Module)):
                b = n.body
                if b and isinstance(b[0], ast.Expr) and isinstance(b[0].value, ast.Constant) and isinstance(b[0].value.value, str) and len(b) > 1:
                    n.body = b[1:]
            if isinstance(n, ast.FunctionDef):
                for a in n.args.args + n.args.kwonlyargs:
                    if a.arg not in ("self", "cls"):
                        a.annotation = ast.Name("object", ast.Load())
                n.returns = ast.Name("object", ast.Load())


def _t_logging(srcs):
    """`import logging` + a module logger; every function starts with a logger.debug call and a `del`-free no-op statement"""
    import ast
    for tree in srcs.values():
        k = 0
        while k < len(tree.body) and (isinstance(tree.body[k], ast.Expr) and isinstance(getattr(tree.body[k], "value", None), ast.Constant)
                                       or isinstance(tree.body[k], ast.ImportFrom) and tree.body[k].module == "__future__"):
            k += 1
        tree.body[k:k] = ast.parse("import logging\n_verif_logger = logging.getLogger(__name__)\n").body
        for n in ast.walk(tree):
            if isinstance(n, ast.FunctionDef):
                k = 1 if (n.body and isinstance(n.body[0], ast.Expr) and isinstance(n.body[0].value, ast.Constant) and isinstance(n.body[0].value.value, str)) else 0
                n.body[k:k] = ast.parse("_verif_logger.debug('entering %%s', %r)\n" % n.name).body


def _t_traced(srcs):
    """a transparent decorator (`*args, **kwargs` forwarded verbatim, a logger call before) on every top-level function and method"""
    import ast
    for tree in srcs.values():
        k = 0
        while k < len(tree.body) and (isinstance(tree.body[k], ast.Expr) and isinstance(getattr(tree.body[k], "value", None), ast.Constant)
                                       or isinstance(tree.body[k], ast.ImportFrom) and tree.body[k].module == "__future__"):
            k += 1
        tree.body[k:k] = ast.parse(
            "import functools as _verif_functools\nimport logging as _verif_logging\n"
            "def _verif_traced(fun):\n"
            "    @_verif_functools.wraps(fun)\n"
            "    def wrapper(*args, **kwargs):\n"
            "        _verif_logging.getLogger(__name__).debug('call of %s', fun.__name__)\n"
            "        return fun(*args, **kwargs)\n"
            "    return wrapper\n").body
        for n in tree.body:
            if isinstance(n, ast.FunctionDef) and n.name != "_verif_traced" and not n.decorator_list:
                n.decorator_list = [ast.Name("_verif_traced", ast.Load())]
            elif isinstance(n, ast.ClassDef):
                for m in n.body:
                    if isinstance(m, ast.FunctionDef) and not m.decorator_list:
                        m.decorator_list = [ast.Name("_verif_traced", ast.Load())]


def _t_shim(srcs):
    """a (correct) keyword-only deprecation shim on every top-level function with at least two defaulted trailing parameters:
    positional use of those still works and is forwarded by keyword"""
    import ast
    for tree in srcs.values():
        k = 0
        while k < len(tree.body) and (isinstance(tree.body[k], ast.Expr) and isinstance(getattr(tree.body[k], "value", None), ast.Constant)
                                       or isinstance(tree.body[k], ast.ImportFrom) and tree.body[k].module == "__future__"):
            k += 1
        tree.body[k:k] = ast.parse(
            "import functools as _verif_functools\nimport warnings as _verif_warnings\n"
            "def _verif_keyword_only(*names):\n"
            "    def decorator(fun):\n"
            "        n_positional = fun.__code__.co_argcount - len(names)\n"
            "        @_verif_functools.wraps(fun)\n"
            "        def wrapper(*args, **kwargs):\n"
            "            extra = len(args) - n_positional\n"
            "            if extra > 0:\n"
            "                _verif_warnings.warn('pass %s by keyword' % (names[:extra],), DeprecationWarning, stacklevel=2)\n"
            "                kwargs.update(zip(names, args[n_positional:]))\n"
            "                args = args[:n_positional]\n"
            "            return fun(*args, **kwargs)\n"
            "        return wrapper\n"
            "    return decorator\n").body
        for n in tree.body:
            if isinstance(n, ast.FunctionDef) and not n.decorator_list and len(n.args.defaults) >= 2 and not n.args.vararg and not n.args.kwarg and not n.args.kwonlyargs:
                names = [a.arg for a in n.args.args[-2:]]
                n.decorator_list = [ast.Call(ast.Name("_verif_keyword_only", ast.Load()), [ast.Constant(x) for x in names], [])]


def _t_coerce_params(srcs):
    """input coercion at function entry: every function of sempler/utils.py and the model constructors / methods whose first
    parameter is a matrix (A, G, P, W, pdag, graph) starts with `X = np.asarray(X)` - the identity for ndarray arguments"""
    import ast
    for pth, tree in srcs.items():
        if not pth.endswith(("sempler/utils.py", "sempler/generators.py")):
            continue
        for n in ast.walk(tree):
            if isinstance(n, ast.FunctionDef) and n.args.args:
                for a in n.args.args[:2]:
                    if a.arg in ("A", "G", "P", "pdag", "ordered", "P1", "P2"):
                        k = 1 if (n.body and isinstance(n.body[0], ast.Expr) and isinstance(n.body[0].value, ast.Constant) and isinstance(n.body[0].value.value, str)) else 0
                        n.body[k:k] = ast.parse("%s = np.asarray(%s)\n" % (a.arg, a.arg)).body


def _t_early_exit(srcs):
    """`if c: ... return/raise  else: rest` becomes `if c: ... return/raise` followed by `rest` (no else after an exit)"""
    import ast

    def fix(body):
        out = []
        for st in body:
            for fld in ("body", "orelse", "finalbody"):
                if hasattr(st, fld) and isinstance(getattr(st, fld), list) and getattr(st, fld) and isinstance(getattr(st, fld)[0], ast.stmt):
                    setattr(st, fld, fix(getattr(st, fld)))
            if isinstance(st, ast.Try):
                for h in st.handlers:
                    h.body = fix(h.body)
            if isinstance(st, ast.If) and st.orelse and isinstance(st.body[-1], (ast.Return, ast.Raise)):
                rest = st.orelse
                st.orelse = []
                out.append(st)
                out.extend(rest)
            else:
                out.append(st)
        return out
    for tree in srcs.values():
        for n in ast.walk(tree):
            if isinstance(n, ast.FunctionDef):
                n.body = fix(n.body)


def _t_numpy_alias(srcs):
    """`import numpy as np` becomes `import numpy`, every use of the alias is spelled `numpy.`"""
    import ast
    for tree in srcs.values():
        has = False
        for n in ast.walk(tree):
            if isinstance(n, ast.Import):
                for a in n.names:
                    if a.name == "numpy" and a.asname == "np":
                        a.asname = None
                        has = True
        if has:
            for n in ast.walk(tree):
                if isinstance(n, ast.Name) and n.id == "np":
                    n.id = "numpy"


def _t_accept_lists(srcs):
    """`if not isinstance(X, np.ndarray): X = np.array(X)` at the entry of every graph utility (accept nested lists)"""
    import ast
    for pth, tree in srcs.items():
        if not pth.endswith(("sempler/utils.py",)):
            continue
        for n in ast.walk(tree):
            if isinstance(n, ast.FunctionDef) and n.args.args:
                for a in n.args.args[:2]:
                    if a.arg in ("A", "G", "P", "pdag", "ordered"):
                        k = 1 if (n.body and isinstance(n.body[0], ast.Expr) and isinstance(n.body[0].value, ast.Constant) and isinstance(n.body[0].value.value, str)) else 0
                        n.body[k:k] = ast.parse("if not isinstance(%s, np.ndarray):\n    %s = np.array(%s)\n" % (a.arg, a.arg, a.arg)).body


TREE_TRANSFORMS = {"@coerce_params": _t_coerce_params, "@accept_lists": _t_accept_lists, "@early_exit": _t_early_exit, "@numpy_alias": _t_numpy_alias, "@kwargs_calls": _t_kwargs_calls, "@strip_docs_annotate": _t_strip_docs_annotate, "@logging": _t_logging, "@traced": _t_traced, "@kwonly": _t_kwonly, "@extra_param": _t_extra_param, "@try_reraise": _t_try_reraise, "@np_functions": _t_np_functions, "@small_idioms": _t_small_idioms, "@flip_comparisons": _t_flip_comparisons, "@else_after_exit": _t_else_after_exit, "@comp_to_loop": _t_comp_to_loop, "@logic_spellings": _t_logic_spellings, "@local_aliases": _t_local_aliases, "@method_spellings": _t_method_spellings, "@statement_spellings": _t_statement_spellings, "@loop_spellings": _t_loop_spellings, "@import_styles": _t_import_styles, "@np_constructors": _t_np_constructors, "@literal_spellings": _t_literal_spellings, "@arith_spellings": _t_arith_spellings, "@defensive_copies": _t_defensive_copies, "@local_snapshots": _t_local_snapshots, "@reorder_defs": _t_reorder_defs, "@validate_inputs": _t_validate_inputs, "@np_operators": _t_np_operators, "@private_module": _t_private_module, "@swap_branches": _t_swap_branches, "@name_conditions": _t_name_conditions, "@ternary_to_if": _t_ternary_to_if,
                   "@shim": _t_shim}


def rename_locals(path, qual):
    """behaviour-preserving rewrite: every local variable (not a parameter) of function `qual`
    (`func` or `Class.method`) is renamed, and the function is re-emitted by ast.unparse (comments and layout lost)"""
    import ast
    src = open(path).read()
    tree = ast.parse(src)
    target = None
    parts = qual.split(".")
    for n in tree.body:
        if len(parts) == 1 and isinstance(n, ast.FunctionDef) and n.name == parts[0]:
            target = n
        if len(parts) == 2 and isinstance(n, ast.ClassDef) and n.name == parts[0]:
            for k in n.body:
                if isinstance(k, ast.FunctionDef) and k.name == parts[1]:
                    target = k
    if target is None:
        return False
    from .loader import local_names
    params = {a.arg for a in target.args.posonlyargs + target.args.args + target.args.kwonlyargs}
    if target.args.vararg:
        params.add(target.args.vararg.arg)
    if target.args.kwarg:
        params.add(target.args.kwarg.arg)
    locs = {x for x in local_names(target) if x not in params}
    # comprehension / lambda variables are renamed too when they do not clash
    mapping = {x: x + "_rn" for x in locs}

    class R(ast.NodeTransformer):
        def visit_Name(self, node):
            if node.id in mapping:
                node.id = mapping[node.id]
            return node

        def visit_ExceptHandler(self, node):
            if node.name in mapping:
                node.name = mapping[node.name]
            self.generic_visit(node)
            return node
    seg = ast.get_source_segment(src, target)
    R().visit(target)
    new = ast.unparse(target)
    indent = " " * target.col_offset
    new = ("\n" + indent).join(new.split("\n"))
    if src.count(seg) != 1:
        return False
    open(path, "w").write(src.replace(seg, new))
    return True


def run_variant(v):
    from .__main__ import run_property
    root = repo_root()
    d = make_scratch(root, v["edits"])
    if d is None:
        return dict(v, outcome="skipped", detail="edit no longer applies")
    try:
        import ast
        for e in v["edits"]:
            if e[0] == "@unparse_all" or e[0] in TREE_TRANSFORMS:
                continue
            rel = e[1] if e[0] in ("@rename_locals", "@newfile") else e[0]
            ast.parse(open(os.path.join(d, rel)).read())
        buf = io.StringIO()
        with contextlib.redirect_stdout(buf), contextlib.redirect_stderr(buf):
            code, rep = run_property(v["prop"], "quick", write=False, root=d)
        fired = sorted({i.rule for i in rep.instances if i.verdict == "VIOLATION"})
        inc = sorted({i.rule for i in rep.instances if i.verdict == "INCONCLUSIVE"})
        if v["expect"] == "fire":
            ok = code == 1 and (not v.get("rule") or any(r.startswith(v["rule"]) for r in fired))
            if not ok and code == 2 and v.get("accept_inconclusive"):
                ok = True
        elif v["expect"] == "undecided":
            # the property holds on this variant, but in an idiom the rules do not read: the honest outcome is "inconclusive"
            # (exit 2, no VIOLATION line) — never an alarm
            ok = code in (0, 2)
        else:
            ok = code == 0
        return dict(id=v["id"], prop=v["prop"], expect=v["expect"], outcome="ok" if ok else "FAILED", code=code,
                    fired=fired, inconclusive=inc, detail=buf.getvalue()[-600:] if not ok else "")
    except SyntaxError as e:
        return dict(id=v["id"], prop=v["prop"], expect=v["expect"], outcome="skipped", detail="variant does not parse: %s" % e)
    finally:
        shutil.rmtree(d, ignore_errors=True)


def run_catalogue(prop=None, jobs=None, ids=None):
    todo = [v for v in VARIANTS if (prop is None or v["prop"] == prop) and (ids is None or v["id"] in ids or any(i.endswith("*") and v["id"].startswith(i[:-1]) for i in ids))]
    jobs = jobs or min(16, os.cpu_count() or 4)
    if jobs > 1 and len(todo) > 1:
        with ProcessPoolExecutor(max_workers=jobs) as ex:
            res = list(ex.map(run_variant, todo))
    else:
        res = [run_variant(v) for v in todo]
    return res


def _cross_job(args):
    v, p = args
    r = run_variant(dict(v, prop=p, expect="undecided"))       # exit 0 or 2, never a VIOLATION line
    r["origin"] = v["prop"]
    return r


def run_cross(prop, jobs=None):
    """every *silent* single-edit variant written for another property is a behaviour-preserving rewrite for this one too
    (unless it says otherwise: `breaks=(...)`): none may make this property's check report a violation"""
    todo = [(v, prop) for v in VARIANTS if v["expect"] == "silent" and v["prop"] != prop and prop not in v.get("breaks", ())
            and not any(e[0].startswith("@") for e in v["edits"])]
    jobs = jobs or min(16, os.cpu_count() or 4)
    with ProcessPoolExecutor(max_workers=jobs) as ex:
        res = list(ex.map(_cross_job, todo, chunksize=8))
    return res


def summarise(res):
    out = {"applied": sum(1 for r in res if r["outcome"] != "skipped"),
           "detected": sum(1 for r in res if r["expect"] == "fire" and r["outcome"] == "ok"),
           "silent": sum(1 for r in res if r["expect"] == "silent" and r["outcome"] == "ok"),
           "undecided_not_alarmed": sum(1 for r in res if r["expect"] == "undecided" and r["outcome"] == "ok"),
           "skipped": sum(1 for r in res if r["outcome"] == "skipped"),
           "failed": [r["id"] for r in res if r["outcome"] == "FAILED"]}
    return out


def main():
    ap = argparse.ArgumentParser()
    ap.add_argument("--prop")
    ap.add_argument("--jobs", type=int)
    ap.add_argument("--list", action="store_true")
    ap.add_argument("--id", action="append")
    a = ap.parse_args()
    if a.list:
        for v in VARIANTS:
            print(v["id"], v["prop"], v["expect"], v.get("rule", ""), "-", v["what"])
        return 0
    res = run_catalogue(a.prop, a.jobs, a.id)
    for r in res:
        print("%-34s %-4s %-6s -> %-7s code=%s fired=%s" % (r["id"], r["prop"], r["expect"], r["outcome"], r.get("code"), r.get("fired")))
        if r["outcome"] == "FAILED":
            print("    " + r.get("detail", "").replace("\n", "\n    "))
    s = summarise(res)
    print(json.dumps(s))
    return 1 if s["failed"] else 0


if __name__ == "__main__":
    sys.exit(main())
