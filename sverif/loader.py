"""Loader and resolver: parse the repository's packages, record functions, classes,
imports and per-function local names.  Nothing is imported from the repository."""
import ast
import glob
import hashlib
import os

PACKAGES = ("sempler", "drf")
EXT_ALIASES = {"np": "numpy", "pd": "pandas"}
# constructs the engine does not model; their presence in an analysed slice makes the
# slice inconclusive (DESIGN.md appendix B)
FORBIDDEN_CALLS = {"exec", "eval", "getattr", "setattr", "globals", "locals", "vars", "__import__", "delattr"}


def repo_root():
    return os.environ.get("SVERIF_REPO", "/repo")


class Inconclusive(Exception):
    """The analysed slice leaves the modelled fragment."""

    def __init__(self, why, node=None, where=None):
        super().__init__(why)
        self.why, self.node, self.where = why, node, where


class AnchorMissing(Inconclusive):
    pass


class Func:
    def __init__(self, module, node, cls=None):
        self.module, self.node, self.cls = module, node, cls
        self.name = node.name
        self.qname = "%s.%s.%s" % (module.name, cls, node.name) if cls else "%s.%s" % (module.name, node.name)
        a = node.args
        self.posparams = [x.arg for x in a.posonlyargs + a.args]
        self.kwonly = [x.arg for x in a.kwonlyargs]
        self.vararg = a.vararg.arg if a.vararg else None
        self.kwarg = a.kwarg.arg if a.kwarg else None
        self.defaults = {}
        nd = len(a.defaults)
        for p, d in zip(self.posparams[len(self.posparams) - nd:], a.defaults):
            self.defaults[p] = d
        for p, d in zip(self.kwonly, a.kw_defaults):
            if d is not None:
                self.defaults[p] = d
        self.locals = local_names(node)
        self.cached = any((dotted_of(d.func if isinstance(d, ast.Call) else d) or "").split(".")[-1] in ("lru_cache", "cache")
                          for d in node.decorator_list)
        # decorators the interpreter applies by evaluating them (core.Interp.call_decorated); lru_cache / cache are modelled as
        # "results shared between calls" instead (self.cached)
        dnames = [(dotted_of(d.func if isinstance(d, ast.Call) else d) or "") for d in node.decorator_list]
        # @staticmethod: a plain function kept in the class namespace (no self); @property: the attribute read calls the getter
        self.is_static = cls is not None and "staticmethod" in dnames
        self.is_property = cls is not None and "property" in dnames
        self.decorators = [d for d, nm in zip(node.decorator_list, dnames)
                           if nm.split(".")[-1] not in ("lru_cache", "cache") and not (cls is not None and nm in ("staticmethod", "property"))]
        self.is_method = cls is not None and not self.is_static and bool(self.posparams) and self.posparams[0] == "self"
        self.is_generator = _has_yield(node)
        self.home = None          # set when the function is re-exported by a public module under its own name (Program._rehome_private_modules)

    @property
    def public_module(self):
        """the module the function is known under: where it is written, or the public module that re-exports it from a private one"""
        return self.home if self.home is not None else self.module

    @property
    def params(self):
        """parameters without self (keyword-only ones included)"""
        return (self.posparams[1:] if self.is_method else list(self.posparams)) + list(self.kwonly)

    def __repr__(self):
        return "<Func %s>" % self.qname


def _own_nodes(fnode):
    """the nodes of a function body, not descending into nested functions / lambdas / classes"""
    stack = list(fnode.body)
    while stack:
        n = stack.pop()
        yield n
        for ch in ast.iter_child_nodes(n):
            if not isinstance(ch, (ast.FunctionDef, ast.AsyncFunctionDef, ast.Lambda, ast.ClassDef)):
                stack.append(ch)


def _has_yield(fnode):
    return any(isinstance(n, (ast.Yield, ast.YieldFrom)) for n in _own_nodes(fnode))


def local_names(fnode):
    """Names bound in the function's own scope (parameters, assignment / loop / with /
    except / import targets).  Comprehension targets, lambdas and nested defs have their own scope."""
    out = set()
    a = fnode.args
    for x in a.posonlyargs + a.args + a.kwonlyargs:
        out.add(x.arg)
    if a.vararg:
        out.add(a.vararg.arg)
    if a.kwarg:
        out.add(a.kwarg.arg)

    def walk(n, top=False):
        if isinstance(n, (ast.FunctionDef, ast.AsyncFunctionDef, ast.ClassDef)) and not top:
            out.add(n.name)
            return
        if isinstance(n, ast.Lambda):
            return
        if isinstance(n, (ast.ListComp, ast.SetComp, ast.DictComp, ast.GeneratorExp)):
            # the first iterable is evaluated in the enclosing scope; walrus is not used in the repo
            walk(n.generators[0].iter)
            return
        if isinstance(n, ast.Name) and isinstance(n.ctx, (ast.Store, ast.Del)):
            out.add(n.id)
        if isinstance(n, (ast.Import, ast.ImportFrom)):
            for al in n.names:
                out.add((al.asname or al.name).split(".")[0])
        if isinstance(n, ast.ExceptHandler) and n.name:
            out.add(n.name)
        for c in ast.iter_child_nodes(n):
            walk(c)

    if isinstance(fnode, ast.Lambda):
        return out
    for s in fnode.body:
        walk(s)
    return out


# Input domain of the properties: the parameters with these names are square two-dimensional numpy arrays (adjacency / weight matrices, as the
# docstrings say).  A test that only inspects the *shape or type* of such a parameter (`A.ndim != 2`, `A.shape[0] != A.shape[1]`,
# `not isinstance(A, np.ndarray)`) has one truth value on that domain: the `if` is read as the branch taken there, by every analysis and by the
# shape gate, and the evidence lists the assumption.
SQUARE_PARAMS = {"A", "P", "G", "W", "pdag", "cpdag"}
NOT_SQUARE = {("separates", "A"), ("allclose", "A"), ("nonzero", "A"), ("member", "A"), ("plot_matrix", "A")}     # a node set / arrays of any shape under the same name


def domain_guard(test, mats, used):
    """True / False when `test` is decided by "the parameters `mats` are square 2-D ndarrays" alone, else None"""
    def mat(e):
        if isinstance(e, ast.Name) and e.id in mats:
            used.add(e.id)
            return e.id
        return None

    def val(e):
        """2 for the rank, ('n', X) for the side of X, ints for constants; None unknown"""
        if isinstance(e, ast.Constant) and type(e.value) is int:
            return e.value
        if isinstance(e, ast.Attribute) and e.attr == "ndim" and mat(e.value):
            return 2
        if isinstance(e, ast.Call) and isinstance(e.func, ast.Name) and e.func.id == "len" and len(e.args) == 1 and not e.keywords:
            x = e.args[0]
            if mat(x):
                return ("n", x.id)
            if isinstance(x, ast.Attribute) and x.attr == "shape" and mat(x.value):
                return 2
        if isinstance(e, ast.Subscript) and isinstance(e.value, ast.Attribute) and e.value.attr == "shape" and mat(e.value.value) and \
                isinstance(e.slice, ast.Constant) and e.slice.value in (0, 1, -1, -2):
            return ("n", e.value.value.id)
        return None

    def cmp(op, l, r):
        if isinstance(l, int) and isinstance(r, int):
            return {ast.Eq: l == r, ast.NotEq: l != r, ast.Lt: l < r, ast.LtE: l <= r, ast.Gt: l > r, ast.GtE: l >= r}.get(type(op))
        if isinstance(l, tuple) and l == r:
            return {ast.Eq: True, ast.NotEq: False, ast.Lt: False, ast.LtE: True, ast.Gt: False, ast.GtE: True}.get(type(op))
        return None

    def tv(e):
        if isinstance(e, ast.BoolOp):
            vs = [tv(x) for x in e.values]
            if isinstance(e.op, ast.Or):
                return True if True in vs and all(v is not None for v in vs[:vs.index(True) + 1]) else (False if all(v is False for v in vs) else None)
            return False if False in vs and all(v is not None for v in vs[:vs.index(False) + 1]) else (True if all(v is True for v in vs) else None)
        if isinstance(e, ast.UnaryOp) and isinstance(e.op, ast.Not):
            v = tv(e.operand)
            return None if v is None else not v
        if isinstance(e, ast.Compare) and len(e.ops) == 1:
            l, r = val(e.left), val(e.comparators[0])
            if l is None or r is None:
                return None
            return cmp(e.ops[0], l, r)
        if isinstance(e, ast.Call) and isinstance(e.func, ast.Name) and e.func.id == "isinstance" and len(e.args) == 2 and not e.keywords and mat(e.args[0]) and \
                (dotted_of(e.args[1]) or "") in ("np.ndarray", "numpy.ndarray"):
            return True
        return None
    return tv(test)


def resolve_domain_guards(tree):
    """rewrite every `if` decided by domain_guard to the branch taken; -> [(function name, line, parameter)]"""
    assumed = []

    def block(stmts, mats, fname):
        out = []
        for st in stmts:
            if isinstance(st, (ast.FunctionDef, ast.AsyncFunctionDef)):
                a = st.args
                own = {x.arg for x in a.posonlyargs + a.args + a.kwonlyargs if (st.name, x.arg) not in NOT_SQUARE} & SQUARE_PARAMS
                st.body = block(st.body, own, st.name) or [ast.copy_location(ast.Pass(), st)]
                out.append(st)
                continue
            if isinstance(st, ast.ClassDef):
                st.body = block(st.body, set(), fname)
                out.append(st)
                continue
            if isinstance(st, ast.If) and mats:
                used = set()
                d = domain_guard(st.test, mats, used)
                if d is not None:
                    for m in sorted(used):
                        assumed.append((fname, st.lineno, m))
                    out.extend(block(st.body if d else st.orelse, mats, fname))
                    continue
            for fld in ("body", "orelse", "finalbody"):
                sub = getattr(st, fld, None)
                if isinstance(sub, list) and sub and isinstance(sub[0], ast.stmt):
                    new = block(sub, mats, fname)
                    setattr(st, fld, new if new or fld != "body" else [ast.copy_location(ast.Pass(), st)])
            for h in getattr(st, "handlers", None) or []:
                h.body = block(h.body, mats, fname) or [ast.copy_location(ast.Pass(), h)]
            out.append(st)
        return out
    tree.body = block(tree.body, set(), "<module>")
    return assumed


AXIS_METHODS = {"sum", "any", "all", "max", "min", "prod", "mean", "cumsum", "argmax", "argmin"}
SET_HELPERS = {"pa", "ch", "neighbors", "adj", "na", "set", "frozenset"}
SET_METHODS = {"intersection": ast.BitAnd, "union": ast.BitOr, "difference": ast.Sub}


def normalise(tree):
    """Spellings with one meaning, rewritten in place to the one the analyses read (positions kept):
    `x.sum(0)` / `np.sum(x, 0)` -> `axis=0`; `np.copy(X)` -> `X.copy()`; `np.zeros([a, b])` -> `np.zeros((a, b))`; `list()` -> `[]`, `dict()` -> `{}`; `sorted(list(x))` / `list(sorted(x))` -> `sorted(x)`; `1 + x` -> `x + 1`, `2 * x` -> `x * 2`; `s.intersection(t)` / `.union` / `.difference`
    -> `s & t` / `|` / `-` when s is a call of a node-set helper or set(...)."""
    nps = {(al.asname or al.name) for n in tree.body if isinstance(n, ast.Import) for al in n.names if al.name == "numpy"}

    rebound = {x.id for x in ast.walk(tree) if isinstance(x, ast.Name) and isinstance(x.ctx, ast.Store)} | {a.arg for x in ast.walk(tree) if isinstance(x, ast.arguments)
                                                                                                          for a in x.args + x.kwonlyargs + x.posonlyargs}

    class N(ast.NodeTransformer):
        def visit_Call(self, node):
            self.generic_visit(node)
            f = node.func
            if isinstance(f, ast.Name) and f.id in ("list", "dict") and f.id not in rebound and not node.args and not node.keywords:
                return ast.copy_location(ast.List(elts=[], ctx=ast.Load()) if f.id == "list" else ast.Dict(keys=[], values=[]), node)      # list() is [], dict() is {}
            plain = lambda c, names: isinstance(c, ast.Call) and isinstance(c.func, ast.Name) and c.func.id in names and c.func.id not in rebound and len(c.args) == 1 and \
                not isinstance(c.args[0], ast.Starred)
            if plain(node, ("sorted",)) and plain(node.args[0], ("list", "tuple")) and not node.args[0].keywords:
                node.args = [node.args[0].args[0]]            # sorted(list(x)) is sorted(x)
                return node
            if plain(node, ("list",)) and not node.keywords and plain(node.args[0], ("sorted",)):
                return node.args[0]                           # list(sorted(x)) is sorted(x)
            if not isinstance(f, ast.Attribute):
                return node
            is_np = isinstance(f.value, ast.Name) and f.value.id in nps
            axis_const = lambda a: isinstance(a, ast.Constant) and type(a.value) is int or (isinstance(a, ast.UnaryOp) and isinstance(a.op, ast.USub) and isinstance(a.operand, ast.Constant))
            if f.attr in AXIS_METHODS and not node.keywords:
                if is_np and len(node.args) == 2 and axis_const(node.args[1]):
                    node.keywords = [ast.keyword(arg="axis", value=node.args[1])]
                    node.args = node.args[:1]
                elif not is_np and len(node.args) == 1 and axis_const(node.args[0]):
                    node.keywords = [ast.keyword(arg="axis", value=node.args[0])]
                    node.args = []
                return node
            if is_np and f.attr in ("zeros", "ones", "empty", "full") and node.args and isinstance(node.args[0], ast.List) and \
                    not any(isinstance(e, ast.Starred) for e in node.args[0].elts):
                node.args[0] = ast.copy_location(ast.Tuple(elts=node.args[0].elts, ctx=ast.Load()), node.args[0])     # a shape given as a list
                return node
            if is_np and f.attr == "copy" and len(node.args) == 1 and not node.keywords and not isinstance(node.args[0], ast.Starred):
                return ast.copy_location(ast.Call(func=ast.copy_location(ast.Attribute(value=node.args[0], attr="copy", ctx=ast.Load()), node), args=[], keywords=[]), node)
            if f.attr in SET_METHODS and len(node.args) == 1 and not node.keywords and isinstance(f.value, ast.Call) and isinstance(f.value.func, ast.Name) and \
                    f.value.func.id in SET_HELPERS and not isinstance(node.args[0], ast.Starred):
                return ast.copy_location(ast.BinOp(left=f.value, op=SET_METHODS[f.attr](), right=node.args[0]), node)
            return node
    N().visit(tree)
    num = lambda a: isinstance(a, ast.Constant) and type(a.value) in (int, float)
    for x in ast.walk(tree):
        # a numeric constant operand of + or * is written on the right (the other operand is then a number or an array: both commute)
        if isinstance(x, ast.BinOp) and isinstance(x.op, (ast.Add, ast.Mult)) and num(x.left) and not num(x.right):
            x.left, x.right = x.right, x.left
    ast.fix_missing_locations(tree)
    return tree


class Module:
    def __init__(self, name, path, relpath):
        self.name, self.path, self.relpath = name, path, relpath
        with open(path, "rb") as f:
            raw = f.read()
        self.sha256 = hashlib.sha256(raw).hexdigest()
        self.src = raw.decode("utf-8")
        self.tree = normalise(ast.parse(self.src, filename=path))
        self.domain_assumed = resolve_domain_guards(self.tree)
        self.package = name.split(".")[0]
        self.is_pkg = os.path.basename(path) == "__init__.py"
        self.imports = {}      # alias -> dotted
        self.funcs = {}        # name -> Func
        self.classes = {}      # name -> dict(node, bases, methods{name->Func})
        self.globals = {}      # name -> value node (module level simple assigns)
        self.forbidden = []    # (lineno, what)
        # module-level names that some function rebinds under a `global` statement: mutable module state even when the
        # initial value is a constant (`_cache = None`)
        self.rebound_globals = {nm for n_ in ast.walk(self.tree) if isinstance(n_, ast.Global) for nm in n_.names}
        self._scan()

    def _scan(self):
        for n in self.tree.body:
            self._scan_stmt(n)
        # constructs outside the modelled Python subset, each with the function (qualified name) that contains it - None at
        # module level.  A check is inconclusive only when a function it *analysed* contains one (see __main__).
        self.forbidden_in = []          # (lineno, what, owner qname | None)

        def owner_walk(node, owner):
            for ch in ast.iter_child_nodes(node):
                own = owner
                if isinstance(ch, (ast.FunctionDef, ast.AsyncFunctionDef)) and owner is None or isinstance(node, ast.ClassDef) and isinstance(ch, ast.FunctionDef):
                    own = "%s.%s.%s" % (self.name, node.name, ch.name) if isinstance(node, ast.ClassDef) else "%s.%s" % (self.name, ch.name)
                elif isinstance(ch, ast.ClassDef) and owner is None:
                    own = None
                self._flag(ch, own)
                owner_walk(ch, own)
        owner_walk(self.tree, None)
        self.forbidden = [(ln, what) for ln, what, _ in self.forbidden_in]

    def _flag(self, n, owner):
        add = lambda what: self.forbidden_in.append((n.lineno, what, owner))
        if isinstance(n, ast.Call) and isinstance(n.func, ast.Name) and n.func.id in FORBIDDEN_CALLS:
            if n.func.id == "getattr" and len(n.args) == 2 and (dotted_of(n.args[0]) or "").split(".")[0] in ("np", "numpy", "math", "random", "operator", "itertools"):
                pass        # getattr(np.random, name): an attribute of a library module; modelled when the name is a literal where it is evaluated, opaque otherwise
            else:
                add(n.func.id + "()")
        elif isinstance(n, (ast.Nonlocal, ast.Yield, ast.YieldFrom, ast.AsyncFunctionDef, ast.Await)):
            add(type(n).__name__)
        elif isinstance(n, ast.Attribute) and n.attr in ("__dict__", "__class__", "__globals__"):
            add("." + n.attr)
        elif isinstance(n, ast.ImportFrom) and any(a.name == "*" for a in n.names):
            add("star import")
        elif isinstance(n, ast.ClassDef) and any(isinstance(m_, ast.FunctionDef) and m_.name in ("__getattr__", "__getattribute__", "__setattr__", "__delattr__", "__get__", "__set__")
                                                 for m_ in n.body):
            hooks = [m_.name for m_ in n.body if isinstance(m_, ast.FunctionDef) and m_.name in ("__getattr__", "__getattribute__", "__setattr__", "__delattr__", "__get__", "__set__")]
            # attribute access on instances of this class runs user code: what `self.x` means is not what the analysis assumes
            self.forbidden_in.append((n.lineno, "attribute hook %s in class %s" % (", ".join(hooks), n.name), "%s.%s.*" % (self.name, n.name)))
            if n.decorator_list:
                self.forbidden_in.append((n.lineno, "class decorator on %s" % n.name, "%s.%s.*" % (self.name, n.name)))
        elif isinstance(n, (ast.FunctionDef, ast.ClassDef)) and n.decorator_list:
            for d in n.decorator_list:
                dn = dotted_of(d.func if isinstance(d, ast.Call) else d) or "?"
                if dn.split(".")[-1] in ("lru_cache", "cache"):
                    continue          # modelled: the function's results are shared between calls (Func.cached)
                if dn.split(".")[-1] == "wraps":
                    continue          # functools.wraps(f)(wrapper) is the wrapper
                if dn in ("staticmethod", "property") and isinstance(n, ast.FunctionDef) and owner is not None and owner.count(".") >= 2:
                    continue          # modelled (Func.is_static / Func.is_property)
                # a decorated function is only a problem for the checks that analyse *it*
                own = owner
                if isinstance(n, ast.FunctionDef) and owner is not None and owner.endswith("." + n.name):
                    own = owner
                if isinstance(n, ast.FunctionDef):
                    self.forbidden_in.append((n.lineno, "decorator @%s on %s" % (dn, n.name), own))
                else:
                    # a class decorator can replace __init__ / wrap methods: it matters to every check that analyses a method of the class
                    self.forbidden_in.append((n.lineno, "class decorator @%s on %s" % (dn, n.name), "%s.%s.*" % (self.name, n.name)))

    def _scan_stmt(self, n):
        if isinstance(n, ast.Import):
            for a in n.names:
                if a.asname:
                    self.imports[a.asname] = a.name
                else:
                    root = a.name.split(".")[0]
                    self.imports[root] = root
        elif isinstance(n, ast.ImportFrom):
            base = n.module or ""
            if n.level:
                pk = self.name.split(".")
                if not self.is_pkg:
                    pk = pk[:-1]
                pk = pk[:len(pk) - (n.level - 1)]
                base = ".".join(pk + ([n.module] if n.module else []))
            for a in n.names:
                self.imports[a.asname or a.name] = "%s.%s" % (base, a.name)
        elif isinstance(n, ast.FunctionDef):
            self.funcs[n.name] = Func(self, n)
        elif isinstance(n, ast.ClassDef):
            methods = {}
            for k in n.body:
                if isinstance(k, ast.FunctionDef):
                    methods[k.name] = Func(self, k, n.name)
            self.classes[n.name] = {"node": n, "bases": [b for b in n.bases], "methods": methods}
        elif isinstance(n, ast.Assign) and len(n.targets) == 1 and isinstance(n.targets[0], ast.Name):
            self.globals[n.targets[0].id] = n.value
        elif isinstance(n, ast.Assign) and len(n.targets) == 1 and isinstance(n.targets[0], (ast.Tuple, ast.List)) and isinstance(n.value, (ast.Tuple, ast.List)) and \
                len(n.targets[0].elts) == len(n.value.elts) and all(isinstance(t_, ast.Name) for t_ in n.targets[0].elts) and not any(isinstance(v_, ast.Starred) for v_ in n.value.elts):
            # `_COMPELLED, _REVERSIBLE, _UNKNOWN = 1, -1, -2`: one simple assignment per name
            for t_, v_ in zip(n.targets[0].elts, n.value.elts):
                self.globals[t_.id] = v_
        elif isinstance(n, ast.Assign) and len(n.targets) > 1 and all(isinstance(t_, ast.Name) for t_ in n.targets):
            for t_ in n.targets:             # a = b = 0
                self.globals[t_.id] = n.value
        elif isinstance(n, ast.Try):
            # `try: from .semi import DRFNet` / `try: importr(...)` at module level
            for s in n.body + [x for h in n.handlers for x in h.body]:
                self._scan_stmt(s)
        elif isinstance(n, ast.If):
            # `if __name__ == '__main__':` doctest drivers are ignored
            pass


class Program:
    def __init__(self, root=None):
        self.root = root or repo_root()
        self.modules = {}
        for pkg in PACKAGES:
            d = os.path.join(self.root, pkg)
            if not os.path.isdir(d):
                raise AnchorMissing("package directory %s is missing" % d)
            for path in sorted(glob.glob(os.path.join(d, "*.py"))):
                stem = os.path.splitext(os.path.basename(path))[0]
                name = pkg if stem == "__init__" else "%s.%s" % (pkg, stem)
                self.modules[name] = Module(name, path, os.path.relpath(path, self.root))
        self.funcs = {}
        for m in self.modules.values():
            for f in m.funcs.values():
                self.funcs[f.qname] = f
            for c in m.classes.values():
                for f in c["methods"].values():
                    self.funcs[f.qname] = f
        self.rebinds = self._scan_rebinds()
        self._rehome_private_modules()

    def _rehome_private_modules(self):
        """A function or class that lives in a private module of the repository (`sempler/_helpers.py`) and is imported under its own name into a public
        module (`from sempler._helpers import pa` in sempler/utils.py) is known by the public name: `sempler.utils.pa` - where callers, documentation and
        the rules find it. Its body still resolves names in the module it is written in (Func.module); Func.home is the public module."""
        for m in list(self.modules.values()):
            if m.name.rsplit(".", 1)[-1].startswith("_"):
                continue
            for local, target in list(m.imports.items()):
                tmod, _, tname = target.rpartition(".")
                pm = self.modules.get(tmod)
                if pm is None or pm is m or not tmod.rsplit(".", 1)[-1].startswith("_") or tmod.endswith("__init__") or local != tname:
                    continue
                if tname in pm.funcs and tname not in m.funcs:
                    f = pm.funcs[tname]
                    if getattr(f, "home", None) is not None:
                        continue
                    f.home = m
                    f.qname = "%s.%s" % (m.name, tname)
                    self.funcs[f.qname] = f
                    m.funcs[tname] = f
                    m.imports.pop(local, None)
                elif tname in pm.classes and tname not in m.classes:
                    c = pm.classes[tname]
                    m.classes[tname] = c
                    for f in c["methods"].values():
                        if getattr(f, "home", None) is None:
                            f.home = m
                            f.qname = "%s.%s.%s" % (m.name, tname, f.name)
                            self.funcs[f.qname] = f
                    m.imports.pop(local, None)

    def _scan_rebinds(self):
        """Assignments that change what a *name* of the repository refers to, after its definition: `Class.method = g`,
        `module.func = g` (monkeypatching), `f = wrap(f)` at module level for a function f defined in that module, a name that
        is both imported and defined.  The analyses resolve names to definitions, so a check that analyses an affected
        function cannot be trusted: -> [(relpath, lineno, what, affected qualified-name prefix)]"""
        out = []
        for m in self.modules.values():
            defined = set(m.funcs) | set(m.classes)
            for n in m.tree.body:
                tgts = n.targets if isinstance(n, ast.Assign) else [n.target] if isinstance(n, (ast.AugAssign, ast.AnnAssign)) else []
                for t in tgts:
                    if isinstance(t, ast.Name) and t.id in defined:
                        out.append((m.relpath, n.lineno, "module-level rebinding of %s" % t.id, "%s.%s" % (m.name, t.id)))
            for nm in defined & set(m.imports):
                out.append((m.relpath, 0, "%s is both imported and defined in %s" % (nm, m.name), "%s.%s" % (m.name, nm)))
            for n in ast.walk(m.tree):
                tgts = n.targets if isinstance(n, ast.Assign) else [n.target] if isinstance(n, (ast.AugAssign, ast.AnnAssign)) else []
                for t in tgts:
                    if not isinstance(t, ast.Attribute):
                        continue
                    d = dotted_of(t.value)
                    if d is None or d.split(".")[0] in ("self", "cls"):
                        continue
                    head, _, rest = d.partition(".")
                    base = self.resolve_global(head, m)
                    if base is None:
                        continue
                    k = self.lookup(base + ("." + rest if rest else ""))
                    if k[0] == "class":
                        out.append((m.relpath, n.lineno, "assignment to %s.%s" % (d, t.attr), "%s.%s.%s" % (k[1].name, k[2], t.attr)))
                    elif k[0] == "module":
                        out.append((m.relpath, n.lineno, "assignment to %s.%s" % (d, t.attr), "%s.%s" % (k[1].name, t.attr)))
        return out

    # ------------------------------------------------------------------ lookup
    def func(self, qname):
        f = self.funcs.get(qname)
        if f is None:
            raise AnchorMissing("anchor function %s not found in %s" % (qname, self.root))
        return f

    def has(self, qname):
        return qname in self.funcs

    def cls(self, qname):
        mod, _, name = qname.rpartition(".")
        m = self.modules.get(mod)
        if m is None or name not in m.classes:
            raise AnchorMissing("anchor class %s not found" % qname)
        return m.classes[name]

    def canon(self, dotted, _depth=0):
        """Follow the repository's own import aliases: 'sempler.utils.pa' stays,
        'drf.drf' -> 'drf.code.drf', 'numpy.random.seed' stays (external)."""
        if _depth > 8 or not dotted:
            return dotted
        parts = dotted.split(".")
        root = EXT_ALIASES.get(parts[0], parts[0])
        parts[0] = root
        dotted = ".".join(parts)
        for k in range(len(parts), 0, -1):
            mod = ".".join(parts[:k])
            if mod in self.modules and k < len(parts):
                m = self.modules[mod]
                nxt = parts[k]
                if nxt in m.funcs or nxt in m.classes or nxt in m.globals:
                    return dotted
                if nxt in m.imports:
                    return self.canon(".".join([m.imports[nxt]] + parts[k + 1:]), _depth + 1)
                return dotted
        return dotted

    def resolve_global(self, name, module):
        """Dotted path of a module-level name used inside `module` (or None)."""
        if name in module.imports:
            return self.canon(module.imports[name])
        if name in module.funcs or name in module.classes or name in module.globals:
            return "%s.%s" % (module.name, name)
        return None

    def lookup(self, dotted):
        """-> ('func', Func) | ('class', module, name) | ('global', module, node) | ('module', Module) | ('ext', dotted)"""
        dotted = self.canon(dotted)
        if dotted in self.funcs:
            return ("func", self.funcs[dotted])
        if dotted in self.modules:
            return ("module", self.modules[dotted])
        mod, _, name = dotted.rpartition(".")
        m = self.modules.get(mod)
        if m is not None:
            if name in m.classes:
                return ("class", m, name)
            if name in m.globals:
                return ("global", m, m.globals[name])
        return ("ext", dotted)

    def method(self, module, clsname, mname):
        """Resolve a method through the class and its (repo) base classes."""
        seen = set()
        todo = [(module, clsname)]
        while todo:
            m, c = todo.pop(0)
            if (m.name, c) in seen or c not in m.classes:
                continue
            seen.add((m.name, c))
            info = m.classes[c]
            if mname in info["methods"]:
                return info["methods"][mname]
            for b in info["bases"]:
                d = dotted_of(b)
                if d is None:
                    continue
                head = d.split(".")[0]
                full = self.resolve_global(head, m)
                if full is None:
                    continue
                full = self.canon(".".join([full] + d.split(".")[1:]))
                k = self.lookup(full)
                if k[0] == "class":
                    todo.append((k[1], k[2]))
        return None

    def base_method(self, module, clsname, mname):
        """`super().mname` from inside class clsname."""
        info = module.classes.get(clsname)
        if not info:
            return None
        for b in info["bases"]:
            d = dotted_of(b)
            if d is None:
                continue
            full = self.resolve_global(d.split(".")[0], module)
            if full is None:
                continue
            k = self.lookup(self.canon(".".join([full] + d.split(".")[1:])))
            if k[0] == "class":
                f = self.method(k[1], k[2], mname)
                if f:
                    return f
        return None

    def digest(self):
        return {m.relpath: m.sha256 for m in self.modules.values()}

    def stats(self):
        nfun = len(self.funcs)
        nstmt = sum(sum(1 for n in ast.walk(m.tree) if isinstance(n, ast.stmt)) for m in self.modules.values())
        return {"modules": len(self.modules), "functions": nfun, "statements": nstmt}


def dotted_of(node):
    if isinstance(node, ast.Name):
        return node.id
    if isinstance(node, ast.Attribute):
        b = dotted_of(node.value)
        return None if b is None else "%s.%s" % (b, node.attr)
    return None


def norm(node):
    """normalised text of a construct - the key of findings (never a line number)"""
    try:
        return ast.unparse(node)
    except Exception:
        return "<%s>" % type(node).__name__


def where(func_or_ctx, node):
    f = getattr(func_or_ctx, "func", func_or_ctx)
    if f is None:
        return {"file": "?", "line": getattr(node, "lineno", 0), "function": "?", "construct": norm(node)}
    return {"file": f.module.relpath, "line": getattr(node, "lineno", 0) or f.node.lineno,
            "function": f.qname, "construct": norm(node)[:200]}
