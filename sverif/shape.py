"""Shape gate: which functions still look the way they did when the rule instances were confirmed by hand.

Most structural rules were written as "this construct has this form: ok; anything else: violation".  "Anything else" is right
for a small edit (an operator, an index, an argument, a dropped statement): the construct is still the one the rule was written
for, and it no longer says what it should.  It is wrong for a restructuring (a new helper class, a generator, an extra loop, a
vectorised rewrite): there the rule does not *read* the code any more, and "does not match" decides nothing.

The gate tells the two apart from the outside, without knowing the rule: a function has *changed shape* when, compared with the
skeleton recorded on the confirmed tree (fixtures/skeleton.json, written by tools/gen_skeleton.py),

  * it calls a function or class that is defined in the repository now but was not defined then (a new helper), or
  * it did not exist, or
  * REWRITTEN (5) or more of its statements are new or rewritten (statements compared as a multiset of fingerprints - simple
    statements whole, compound ones by their header; deleted statements do not count, so a dropped guard stays a small edit), or
  * a repository function it calls (transitively, depth 3) changed shape in this sense.

(A second criterion - more loops / comprehensions / lambdas / try blocks than the function had - was tried and dropped: measured on
the stored seeded changes it turned 15 decided violations of small edits into "inconclusive" and protected nothing the first
criterion and the rules' own classification did not already protect.  The counts are still recorded in the skeleton.)

The gate only ever *weakens* a verdict: `Report.check` turns a failed two-way check in a function that changed shape into
"inconclusive" (exit 2, no VIOLATION line).  It never produces an alarm, so it cannot be the frozen-fragment kind of rule that fires
on an edit that leaves behaviour unchanged.  Rules that classify their deviations themselves (explicit `rep.bad` / `rep.unk`)
and the semantic domains (PATTERN, OWN, RNG, MNF, PW tables) do not go through it.
"""
import ast
import json
import os

HERE = os.path.dirname(os.path.abspath(__file__))
SKELETON = os.path.join(HERE, "fixtures", "skeleton.json")
REWRITTEN = 5        # this many new / rewritten statements (headers of compound statements count once) make a function "another shape"
COUNTED = (ast.For, ast.While, ast.ListComp, ast.SetComp, ast.DictComp, ast.GeneratorExp, ast.Lambda, ast.Try, ast.Yield, ast.YieldFrom)


def _own(fnode):
    """nodes of a function body without the bodies of nested defs / classes"""
    stack = list(fnode.body)
    while stack:
        n = stack.pop()
        yield n
        for c in ast.iter_child_nodes(n):
            if isinstance(c, (ast.FunctionDef, ast.AsyncFunctionDef, ast.ClassDef)):
                yield c
                continue
            stack.append(c)


def _headers(node):
    """one fingerprint per statement: simple statements whole, compound statements by their header (test / target and iterable / items)"""
    out = []
    for st in ast.walk(node):
        if not isinstance(st, ast.stmt) or st is node:
            continue
        if isinstance(st, (ast.FunctionDef, ast.AsyncFunctionDef, ast.ClassDef)):
            out.append("def " + st.name)
        elif isinstance(st, ast.If):
            out.append("if " + ast.dump(st.test))
        elif isinstance(st, ast.While):
            out.append("while " + ast.dump(st.test))
        elif isinstance(st, (ast.For, ast.AsyncFor)):
            out.append("for " + ast.dump(st.target) + " in " + ast.dump(st.iter))
        elif isinstance(st, (ast.With, ast.AsyncWith)):
            out.append("with " + " ".join(ast.dump(i) for i in st.items))
        elif isinstance(st, ast.Try):
            out.append("try")
        elif isinstance(st, ast.Expr) and isinstance(st.value, ast.Constant) and isinstance(st.value.value, str):
            continue            # docstrings / comments-as-strings
        else:
            out.append(ast.dump(st))
    return out


def statements_of(func):
    import hashlib
    return sorted(hashlib.sha1(h.encode()).hexdigest()[:12] for h in _headers(func.node))


def skeleton_of(func):
    counts = {}
    called = set()
    for n in _own(func.node):
        if isinstance(n, COUNTED):
            k = type(n).__name__
            counts[k] = counts.get(k, 0) + 1
        if isinstance(n, (ast.FunctionDef, ast.AsyncFunctionDef, ast.ClassDef)):
            counts["nested"] = counts.get("nested", 0) + 1
        if isinstance(n, ast.Name):
            called.add(n.id)
        elif isinstance(n, ast.Attribute):
            called.add(n.attr)
    return {"counts": counts, "names": sorted(called), "stmts": statements_of(func)}


def defined_names(prog):
    out = set()
    for f in prog.funcs.values():
        out.add(f.name)
        if f.cls:
            out.add(f.cls)
    for m in prog.modules.values():
        try:
            tree = m.tree
        except AttributeError:
            continue
        for n in ast.walk(tree):
            if isinstance(n, ast.ClassDef):
                out.add(n.name)
    return out


def build(prog):
    return {"defined": sorted(defined_names(prog)), "functions": {q: skeleton_of(f) for q, f in sorted(prog.funcs.items())}}


class Gate:
    def __init__(self, prog):
        self.prog = prog
        try:
            self.ref = json.load(open(SKELETON))
        except (OSError, ValueError):
            self.ref = None
        self.now_defined = defined_names(prog)
        self.memo = {}
        self.by_name = {}
        for q, f in prog.funcs.items():
            self.by_name.setdefault(f.name, []).append(q)

    def changed(self, qname, depth=3, _seen=None):
        """None, or a sentence saying in what way `qname` no longer has the shape the rules were confirmed on"""
        if self.ref is None or not qname or qname in ("-", "?"):
            return None
        key = (qname, depth)
        if key in self.memo:
            return self.memo[key]
        self.memo[key] = None            # cycles
        r = self._changed(qname, depth, _seen or set())
        self.memo[key] = r
        return r

    def _changed(self, qname, depth, seen):
        f = self.prog.funcs.get(qname)
        if f is None:
            return None                  # a rule reporting at module level / on a construct: nothing to compare
        ref = self.ref["functions"].get(qname)
        if ref is None:
            home = getattr(f, "home", None)
            ref = self.ref["functions"].get(home) if home else None
        if ref is None:
            return "%s did not exist when the rules were confirmed" % qname
        cur = skeleton_of(f)
        old_defined = set(self.ref["defined"])
        new_helpers = sorted(n for n in cur["names"] if n in self.now_defined and n not in old_defined)
        if new_helpers:
            return "%s uses %s, defined in the repository after the rules were confirmed" % (f.name, ", ".join(new_helpers[:3]))
        import collections
        added = sum((collections.Counter(cur["stmts"]) - collections.Counter(ref.get("stmts", cur["stmts"]))).values())
        if added >= REWRITTEN:
            return "%d statements of %s are new or rewritten since the rules were confirmed" % (added, f.name)
        if depth > 0:
            for n in cur["names"]:
                for q2 in self.by_name.get(n, ()):
                    if q2 == qname or q2 in seen:
                        continue
                    f2 = self.prog.funcs[q2]
                    # a callee: same module's function, or any repository function of that name when it is unique
                    if f2.module is not f.module and len(self.by_name[n]) != 1:
                        continue
                    r = self.changed(q2, depth - 1, seen | {qname})
                    if r:
                        return "%s relies on %s, and %s" % (f.name, f2.name, r)
        return None
